#!/usr/bin/env python3
"""mkmutant.py <name> <file> <old> <new> [<file> <old> <new> ...]: writes /verif/mutants/<name>.diff against /repo HEAD"""
import sys, subprocess, os, shutil, tempfile
name=sys.argv[1]; trip=sys.argv[2:]
wt=tempfile.mkdtemp(prefix='xsg-mut.')
os.rmdir(wt)
subprocess.check_call(['git','-C','/repo','worktree','add','-q','--detach',wt,'HEAD'])
try:
    for i in range(0,len(trip),3):
        f,old,new=trip[i:i+3]
        p=os.path.join(wt,f); s=open(p).read()
        if s.count(old)!=1:
            print("ERROR: pattern occurs",s.count(old),"times in",f); sys.exit(1)
        open(p,'w').write(s.replace(old,new))
    d=subprocess.check_output(['git','-C',wt,'diff'])
    open(f'/verif/mutants/{name}.diff','wb').write(d)
    print("wrote",name,len(d),"bytes")
finally:
    subprocess.call(['git','-C','/repo','worktree','remove','--force',wt])
