#!/usr/bin/env python3
"""Rewrites the block between <!-- MATRIX:BEGIN --> and <!-- MATRIX:END --> in DESIGN.md from
mutants/last_selftest_full.json and seeded/*/meta.json."""
import json, os, glob, re
out=[]
# mutants
p='/verif/mutants/last_selftest_full.json'
if os.path.exists(p):
    rows=json.load(open(p))
    out.append("#### Mutants (mutants/*.diff, applied one at a time to /repo's working tree by mutants/selftest.py)\n")
    out.append("| mutant | crate's own 102 tests | quick checks run → exit (first signatures) |")
    out.append("|---|---|---|")
    for n,tests,res in rows:
        cells=[]
        for pr,v in sorted(res.items()):
            if isinstance(v,list) or isinstance(v,tuple):
                cells.append(f"{pr}→{v[0]} ({', '.join(v[1][:2])})")
            else:
                cells.append(f"{pr}→{v}")
        out.append(f"| {n} | {tests} | {'; '.join(cells)} |")
    out.append("")
# seeds
metas=[json.load(open(f)) for f in sorted(glob.glob('/verif/seeded/*/meta.json'))]
if metas:
    out.append("#### Seeded changes (seeded/<id>/: patch.diff, demo.rs, notes.md, meta.json)\n")
    out.append("Each was written by an independent sub-agent that saw only the property text and a scratch worktree; each was confirmed here (patch applies, the crate's 102 tests still pass, the demo fails with the patch and passes without it) before the checks were run against it.\n")
    out.append("| seed | target | confirmed | caught by (quick tier, exit 1) | signatures from the target check |")
    out.append("|---|---|---|---|---|")
    for m in metas:
        ch=m.get('checks',{})
        tgt=ch.get(m['breaks_property'],{})
        ran=len(ch)
        caught=', '.join(m.get('caught_by',[])) or '—'
        if ran<=1: caught+=f" (only {m['breaks_property']} run)"
        out.append(f"| {m['id']} | {m['breaks_property']} | {'yes' if m.get('confirmed') else 'NO'} | {caught} | {', '.join(tgt.get('signatures',[])[:3])} |")
    out.append("")
s=open('/verif/DESIGN.md').read()
b='<!-- MATRIX:BEGIN -->'; e='<!-- MATRIX:END -->'
i=s.index(b)+len(b); j=s.index(e)
s=s[:i]+"\n"+"\n".join(out)+"\n"+s[j:]
open('/verif/DESIGN.md','w').write(s)
print("matrix written:",len(out),"lines")
