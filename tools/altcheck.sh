#!/bin/bash
# altcheck.sh <repo-copy> <out-dir> <Cxx> [args...]
# Runs one check against a scratch COPY of the repository (e.g. a git worktree with a seeded change
# applied) without touching /repo or /verif's evidence: the harness sources are copied to <out-dir>/harness
# with the path dependency rewritten, built into <out-dir>/target, and run with XSG_REPO/XSG_OUT set.
# Only used by the mutant / seeded-change tooling; registered checks always run ./check against /repo.
set -u
REPO=$1; OUT=$2; shift 2
export CARGO_NET_OFFLINE=true
mkdir -p "$OUT/work" "$OUT/evidence"
rsync -a --delete --exclude target /verif/harness/ "$OUT/harness/"
sed -i "s#path = \"/repo\"#path = \"$REPO\"#" "$OUT/harness/xsgmon/Cargo.toml"
sed -i "s#target-dir = \"/verif/target\"#target-dir = \"$OUT/target\"#" "$OUT/harness/.cargo/config.toml"
if ! (cd "$OUT/harness" && cargo build --release --offline >"$OUT/work/build.log" 2>&1); then
  if grep -q "cannot be shared between threads safely" "$OUT/work/build.log" && (cd "$OUT/harness" && cargo build --release --offline --features element_not_sync >"$OUT/work/build.log" 2>&1); then
    echo "NOTE: Element<String> is not Sync on this tree; concurrent renderings of one shared tree are replaced by per-thread clones"
    XSG_REPO="$REPO" XSG_OUT="$OUT" exec "$OUT/target/release/xsgmon" "$@"
  fi
    echo "INCONCLUSIVE: the monitor harness does not build against $REPO"
    tail -20 "$OUT/work/build.log"
    exit 2
fi
XSG_REPO="$REPO" XSG_OUT="$OUT" exec "$OUT/target/release/xsgmon" "$@"
