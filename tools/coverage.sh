#!/bin/bash
# coverage.sh: which lines of /repo/src do the quick-tier workloads reach?  (reporting only, not a check)
# Builds the harness with -Cinstrument-coverage (nightly, for its llvm-tools) into /verif/target/cov,
# runs the given checks (default: a representative set) and prints llvm-cov's per-file summary and the
# uncovered lines of the library sources.
set -u
export CARGO_NET_OFFLINE=true
BIN=$(dirname $(find ~/.rustup/toolchains/nightly-x86_64-unknown-linux-gnu -name llvm-cov | head -1))
OUT=/verif/target/cov
mkdir -p $OUT/prof /verif/work/cov-out/evidence
rm -f $OUT/prof/*.profraw
(cd /verif/harness && RUSTFLAGS="-Cinstrument-coverage" CARGO_TARGET_DIR=$OUT cargo +nightly build --release --offline 2>&1 | tail -2)
CHECKS=${@:-C01 C03 C04 C05 C06 C07 C08 C09 C10 C11 C14 C15 C16}
for c in $CHECKS; do
  LLVM_PROFILE_FILE="$OUT/prof/$c-%p-%m.profraw" XSG_OUT=/verif/work/cov-out $OUT/release/xsgmon $c --tier quick | tail -1
done
$BIN/llvm-profdata merge -sparse $OUT/prof/*.profraw -o $OUT/merged.profdata
$BIN/llvm-cov report $OUT/release/xsgmon -instr-profile=$OUT/merged.profdata /repo/src/parser.rs /repo/src/element.rs /repo/src/element/identifier.rs /repo/src/necessity.rs /repo/src/options.rs 2>/dev/null
echo "--- uncovered lines (library sources, test modules excluded by cfg) ---"
$BIN/llvm-cov show $OUT/release/xsgmon -instr-profile=$OUT/merged.profdata /repo/src/parser.rs /repo/src/element.rs /repo/src/element/identifier.rs /repo/src/necessity.rs /repo/src/options.rs --show-line-counts-or-regions 2>/dev/null | grep -E "^\s+[0-9]+\|\s+0\|" | head -60
rm -rf /verif/work/cov-out
