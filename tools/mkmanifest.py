#!/usr/bin/env python3
"""Regenerates /verif/MANIFEST.json from the table below (kept in one place so it stays valid)."""
import json, sys

CHECKS = {
 "C01": dict(tech="runtime monitoring: admission-check oracle over recorded parse/extend histories",
   text="Every source document of every generated history (exhaustive tiny histories, seeded random histories incl. wide/deep/long-list/many-document profiles, exhaustive occurrence patterns (absent/once/twice per child over up to 5-6 occurrences), deterministic threshold families around powers of two, magnitude families at decimal round numbers and seeded log-uniform sizes, steps on fresh threads, rejected parses beforehand, renderings between the steps, reader faults (io::Error injected at seeded byte offsets: Err or the fault-free schema); quick ~0.9M, thorough ~6M) is walked against the schema extracted from the rendered structs: each attribute/child has a field, non-Option fields are present in every occurrence, non-Vec children occur at most once, character data only where a text field or String typing exists. Held-on-observed-executions, not a proof.",
   note="Trusts the AST serializer (ground truth is the generated AST, not a parse), the line-grammar extractor of the rendered text and quick-xml 0.37.5's default reader.", ref="4/C01"),
 "C03": dict(tech="runtime monitoring: history + executable reference model (equality oracle)",
   text="The canonical schema extracted from the rendered output (and the Element tree API) is compared for equality with an independent ~60-line reference inference computed from the document ASTs, on exhaustive tiny histories and seeded random histories (incl. threshold and magnitude families, renderings between the steps, and io::Error faults injected into the reader at seeded byte offsets: the call must return Err or exactly the fault-free schema).",
   note="Trusts the reference inference as the reading of the statement (whitespace-only text counts as a text node; the root always gets a struct).", ref="4/C03"),
 "C04": dict(tech="runtime monitoring: output parsed as Rust (syn) + identifier rules + def/use graph over adversarial name workloads",
   text="Each rendering (sorted and unsorted) of histories over adversarial name pools is parsed by a strict line grammar and by syn; struct/field identifier legality, keyword-freedom, uniqueness, String/Option/Vec shadowing, defined types and exactly-once use are asserted. Duplicate struct names are classified by cause from the input; two causes are listed known findings, any other cause raises.",
   note="Identifier rules: unicode-ident XID + edition-2021 strict/reserved keywords; rustc itself is the cross-check in C02.", ref="4/C04"),
 "C09": dict(tech="runtime monitoring: rendered field/struct order vs first-appearance order computed from the ASTs; sorted/unsorted pair comparison",
   text="Unsorted: groups attributes/text/children, each in first-appearance order over the whole history, structs in pre-order; sorted: attributes and children ascending by full XML name; the two renderings must be equal as multisets of struct blocks/field lines.",
   note="First-appearance order is defined over the stream of start tags (document index, then document order).", ref="4/C09"),
 "C14": dict(tech="runtime monitoring: struct names decomposed against the element path of the AST",
   text="Every struct name must be PascalCase(own) preceded by the PascalCase names of its k nearest ancestors (optional numeric / reserved-name suffix); the first struct is the root's; a PascalCase name occurring at a single position must be unqualified.",
   note="convert_string::to_pascal_case (a dependency of the crate) is trusted as the definition of the PascalCase form.", ref="4/C14"),
 "C15": dict(tech="runtime monitoring: exhaustive enumeration of tagged list pairs against a reference merge",
   text="merge_necessity is called on every ordered pair of duplicate-free tagged lists over an alphabet of 5 (quick, 40M pairs) / 6 (thorough, 5.8G pairs), element types u8/String/&str, plus random lists to length 12 and long lists (to 520 items; u16, long Strings, a key-only PartialEq type); result compared for equality with a 15-line reference (membership, conjunction of necessity, stable order).",
   note="Exhaustive within the alphabet bound only; larger lists are sampled.", ref="4/C15", exhaustive=True),
 "C16": dict(tech="runtime monitoring: operation histories stepped in lock-step with an ordered-map model, invariant + rendering compared after every operation",
   text="All sequences of 4 (quick) / 5 (thorough) operations over 22 public construction operations (incl. cut/paste of previously used elements; names a, b, type, d, ns:e, F, text) plus random sequences up to length 40 and wide parents (2..300 children, thorough to 1500, then random add/add-again/mark-optional/remove/lookup); after every step children()/get_child()/remove_child()/standalone()/text and the rendered fields are compared with the model, and the rendering goes through the C04 well-formedness checker.",
   note="Attributes are observable only through rendering; fields are compared as sets because order is not claimed for hand-built trees.", ref="4/C16", exhaustive=True),
 "C07": dict(tech="runtime monitoring: hostile byte workloads in journalled child processes with catch_unwind, exit-status and no-progress monitors; valgrind memcheck slice in thorough",
   text="1.6M (quick) / 64M (thorough) hostile inputs x reader kinds x all 128 reader configurations, through into_struct, extend_struct and to_serde_struct under presets and hostile option strings; a panic is caught per call, a dead or wedged process is pinned to its case through a journal and confirmed by re-running that case alone three times; nesting ladders to depth 200 on a 2 MiB stack; one case in eight is also parsed through a reader that reports an io::Error at a seeded offset. Thorough adds a valgrind memcheck slice.",
   note="Optimized harness with debug assertions and overflow checks; depth > 200 and inputs > 64 KiB not claimed; watchdog firings that do not reproduce are inconclusive, not violations.", ref="4/C07"),
 "C08": dict(tech="runtime monitoring: verdict of into_struct/extend_struct compared with an independent flat pass over the same reader events",
   text="1.6M (quick) / 48M (thorough) damaged and valid inputs, default reader configuration, every buffered reader kind; Ok/Err must agree with the first fault found by a second reader of the same kind (reader error, attribute error, non-UTF-8 name/key/text, no element), and a syntax error must come back as the variant carrying the reader's error and one of its two positions. The evidence holds the histogram of expected verdict classes. An error of the underlying reader that is not a syntax error is injected as well: well-formed histories supplied through a BufRead that reports an io::Error (seven kinds once or for good, Interrupted once) at seeded byte offsets must give Err, or Ok with the byte-identical fault-free rendering; a fault that never clears before the root ends must give Err.",
   note="Trusts quick-xml's own event stream as the definition of a syntax error; error variants other than the syntax-error one are not constrained.", ref="4/C08"),
 "C05": dict(tech="runtime monitoring: repeated execution under fresh hash seeds, threads and processes with byte-equality oracle; canary HashMap proves iteration orders varied",
   text="Each history (collision-heavy profile) is parsed and rendered 40 (quick) / 64 (thorough) more times in-process, by 4 threads (independent runs and concurrent rendering of one shared tree) and by 3 / 8 fresh processes; all bytes must be equal. A canary HashMap with the same keys records that >= 2 iteration orders were actually seen; a run with too few such cases is inconclusive.",
   note="Determinism across repetitions observed, not proved; relies on std RandomState giving each HashMap a fresh key.", ref="4/C05"),
 "C06": dict(tech="runtime monitoring: algebraic laws over extension histories (permutation, idempotence, neutral inputs, monotonicity per step, equivalence with batch reference inference, failed extension => Err)",
   text="For each history of 2..6 documents: canonical schema after every step is monotone, final schema equals the reference inference of the union, every permutation (k<=4) / sampled permutations give the same schema, a document supplied twice changes nothing, element-less inputs change no byte, a damaged extension (fault confirmed by the C08 oracle) returns Err, and an extension through a reader that reports an io::Error at a seeded offset returns Err or exactly the fault-free union schema.",
   note="Identifiers/struct names/order are deliberately outside the compared schema.", ref="4/C06"),
 "C10": dict(tech="runtime monitoring: metamorphic relation between renderings of one tree (sentinel-substitution byte-equality oracle)",
   text="Every tree is rendered with private-use sentinel strings and then with presets, hostile random option strings and a prefix aimed at prefix+name == identifier; each output must equal the sentinel rendering with the three strings substituted (derive dropped when empty, attribute rename dropped exactly when bound name equals identifier). Presets and the derive builder are compared with the literals they stand for.",
   note="Sort order itself is C09's subject; here each sort order has its own sentinel rendering.", ref="4/C10"),
 "C11": dict(tech="runtime monitoring: metamorphic pairs (document, rewritten document) with byte-equality oracle",
   text="Each history is compared with ~10 rewritten variants (empty-element spelling, expand_empty_elements, reader kinds and buffer sizes down to 1, quoting/blank/character-reference syntax, attribute values, text/CDATA swaps and splits, comments, PIs, XML declaration, DOCTYPE); sorted and unsorted renderings must be byte-identical.",
   note="Whitespace-only text is only rewritten to whitespace-only text; the generator re-checks that a rewrite leaves the reference schema unchanged.", ref="4/C11"),
 "C12": dict(tech="runtime monitoring: the real binary under an input/option/fault matrix; in-process library rendering as oracle; before/after snapshots and strace syscall log for file effects",
   text="4.8k (quick) / 48k (thorough) runs of the binary built from the working tree (inputs from temp files and through a pipe; outputs to stdout, new/existing/near-copy files, symlinks, relative and odd names, the input itself, uncreatable paths): exit status, stdout, stderr, output file bytes compared with header + library rendering for independently mapped options; on input faults the output path must be untouched, observed by inode/mtime/bytes snapshots and (every third run) by strace -e trace=%file,write showing no syscall with write intent on that path.",
   note="env_logger feature not built; EPIPE and permission faults out of scope (root sandbox).", ref="4/C12"),
 "C02": dict(tech="runtime monitoring of generated programs: rendered source compiled by rustc and executed against its source documents (quick_xml::de), values compared with the document ASTs",
   text="~800 (quick) / 9600 (thorough) generated programs (random + 27 deterministic threshold programs: depth to 90, 64-130 distinct children, 255-257 siblings/occurrences, long values), each the verbatim rendering for a random data-oriented history with unique value tokens, are compiled (edition 2021) and run: from_str::<Root> on every source document, plain and with deny_unknown_fields; the deserialized value (re-serialized as JSON through the derived Serialize) must hold every attribute value and text content in the field bound to it. rustc diagnostics are attributed to their program by file name.",
   note="Oracles: rustc (default toolchain), serde 1.0.229, quick-xml 0.37.5 with overlapped-lists; programs tripping only the listed C04 duplicate-struct findings are counted and not compiled.", ref="4/C02", cat="translation_validation"),
 "C13": dict(tech="runtime monitoring of generated programs: rendered source (serde-xml-rs preset) compiled by rustc and executed with serde_xml_rs::from_str, values compared with the document ASTs",
   text="Same machinery as C02 with the serde-xml-rs preset and a workload inside the statement's preconditions (no prefixes/xmlns, attribute names disjoint from child names, repeated children adjacent, no mixed content). One listed known finding (text bound to $text is lost with serde-xml-rs 0.6.0); compile failures, Err results, lost attribute values and lost text of String-typed children still raise.",
   note="serde-xml-rs 0.6.0 / xml-rs 0.8.29 (the only versions available offline and the ones pinned by the repository).", ref="4/C13", cat="translation_validation"),
}

NOT_YET = {}

def main():
    props=[json.loads(l) for l in open('/verif/properties.jsonl')]
    checks=[]
    na=[]
    for p in props:
        i=p['id']
        if i in CHECKS:
            c=CHECKS[i]
            checks.append({
              "property_id": i,
              "quick_cmd": f"./check {i} --tier quick",
              "thorough_cmd": f"./check {i} --tier thorough",
              "evidence_file": f"evidence/{i}.json",
              "replay_cmd_template": f"./check {i} --replay {{path}}",
              "engine": "xsgmon",
              "level_claimed": {"category":"exploration","text":c["text"],"design_ref":c["ref"]},
              "level_note": c["note"],
              "technique": c["tech"],
            })
        else:
            na.append({"property_id": i, "reason": NOT_YET.get(i, "check not built yet (construction in progress); runtime monitoring applies, see DESIGN.md")})
    m={"version":1,
       "setup_cmd":"cd /verif/harness && CARGO_NET_OFFLINE=true cargo build --release --offline",
       "hooks":{"guard":"xsg_verif","enable":"no hooks: every property is observed at the public API / CLI boundary; the guard name is reserved and unused","baseline_off_cmd":"cd /repo && cargo test --workspace --no-fail-fast --offline","source_commits":[],"add_only":True},
       "engines":[{"name":"xsgmon","path":"harness/xsgmon","serves_properties":sorted(CHECKS),"kind_free_text":"Rust binary linking /repo as a path dependency: workload generators, reference models, monitors and oracles; ./check rebuilds it before every run"}],
       "checks":checks,
       "notes":"Exit 2 + an INCONCLUSIVE: line (never a VIOLATION line) means the run could not decide (harness build failure, watchdog, too few non-trivial cases). known_findings.txt lists recorded defects and fix commits.",
       "not_applicable":na}
    json.dump(m,open('/verif/MANIFEST.json','w'),indent=1)
    print("checks:",len(checks),"not_applicable:",len(na))
main()
