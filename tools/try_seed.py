#!/usr/bin/env python3
"""try_seed.py <src-dir> <seed-id> <property> [--all]

Validates a candidate seeded change (patch.diff + demo.rs [+ notes.md]) and records it under
/verif/seeded/<seed-id>/:
 1. in a scratch worktree of /repo (under /tmp): the patch applies, the crate's own tests still pass,
    the demo FAILS with the patch and PASSES without it;
 2. the patch is applied to /repo's working tree, the quick check of <property> (and with --all every
    registered check) is run, and the tree is restored straight afterwards.
Nothing is ever committed to /repo.
"""
import json, os, re, shutil, subprocess, sys, time

def sh(cmd, **kw):
    return subprocess.run(cmd, shell=True, stdout=subprocess.PIPE, stderr=subprocess.STDOUT, text=True, **kw)

def restore_dev_full():
    """a broken CLI under observation (e.g. one that deletes its output file on a write error) can remove
    or replace /dev/full on this machine; put the device back so that later runs judge the program"""
    import stat
    try:
        ok = stat.S_ISCHR(os.stat('/dev/full').st_mode)
    except OSError:
        ok = False
    if not ok:
        subprocess.run('rm -f /dev/full; mknod -m 666 /dev/full c 1 7', shell=True)
        print('NOTE: /dev/full had been removed or replaced by a program under observation; device node restored', flush=True)

def main():
    src, sid, prop = sys.argv[1:4]
    run_all = '--all' in sys.argv
    out = f'/verif/seeded/{sid}'
    os.makedirs(out, exist_ok=True)
    for f in ('patch.diff', 'demo.rs', 'notes.md'):
        if os.path.exists(os.path.join(src, f)) and os.path.abspath(os.path.join(src, f)) != os.path.abspath(os.path.join(out, f)):
            shutil.copy(os.path.join(src, f), os.path.join(out, f))
    meta = {'id': sid, 'breaks_property': prop, 'validated_at': time.strftime('%Y-%m-%d %H:%M:%S')}
    notes = open(os.path.join(out, 'notes.md')).read() if os.path.exists(os.path.join(out, 'notes.md')) else ''
    meta['needs_to_manifest'] = notes[:1500]

    if sh('git -C /repo status --porcelain').stdout.strip():
        print('refusing: /repo working tree is not clean'); sys.exit(2)
    wt = f'/tmp/xsg-seedcheck-{os.getpid()}'
    sh(f'git -C /repo worktree add -q --detach {wt} HEAD')
    ran = []
    try:
        r = sh(f'git -C {wt} apply {out}/patch.diff')
        meta['patch_applies'] = r.returncode == 0
        if r.returncode != 0:
            print('PATCH DOES NOT APPLY', r.stdout)
        else:
            env = 'CARGO_NET_OFFLINE=true'
            t = sh(f'cd {wt} && {env} cargo test --offline 2>&1 | grep "test result"')
            ran.append('cargo test --offline (patched)')
            meta['own_tests_with_patch'] = t.stdout.strip().splitlines()
            meta['own_tests_pass_with_patch'] = bool(re.search(r'ok\. 102 passed; 0 failed', t.stdout)) and 'FAILED' not in t.stdout
            os.makedirs(f'{wt}/tests', exist_ok=True)
            shutil.copy(f'{out}/demo.rs', f'{wt}/tests/demo.rs')
            d1 = sh(f'cd {wt} && {env} cargo test --offline --test demo 2>&1 | tail -25')
            ran.append('cargo test --offline --test demo (patched)')
            meta['demo_fails_with_patch'] = 'test result: FAILED' in d1.stdout or 'error: test failed' in d1.stdout
            meta['demo_output_with_patch'] = d1.stdout[-1500:]
            sh(f'git -C {wt} checkout -- src')
            d2 = sh(f'cd {wt} && {env} cargo test --offline --test demo 2>&1 | tail -8')
            ran.append('cargo test --offline --test demo (unpatched)')
            meta['demo_passes_without_patch'] = bool(re.search(r'test result: ok\. [1-9]', d2.stdout))
    finally:
        sh(f'git -C /repo worktree remove --force {wt}')
        shutil.rmtree(wt, ignore_errors=True)

    ok = meta.get('patch_applies') and meta.get('own_tests_pass_with_patch') and meta.get('demo_fails_with_patch') and meta.get('demo_passes_without_patch')
    meta['confirmed'] = bool(ok)
    checks = {}
    if ok and '--no-checks' not in sys.argv:
        props = [prop]
        if run_all:
            props += [f'C{i:02d}' for i in range(1, 17) if f'C{i:02d}' != prop]
        try:
            a = sh(f'git -C /repo apply {out}/patch.diff')
            assert a.returncode == 0, a.stdout
            for p in props:
                t0 = time.time()
                c = sh(f'cd /verif && ./check {p} --tier quick')
                sigs = re.findall(r'signature: (\S+)', c.stdout)
                checks[p] = {'exit': c.returncode, 'signatures': sigs[:6], 'wall_s': round(time.time() - t0, 1)}
                ran.append(f'./check {p} --tier quick (patch applied to /repo working tree)')
                print(sid, p, checks[p], flush=True)
        finally:
            sh('git -C /repo checkout -- . && git -C /repo clean -fdq src tests')
            sh('cd /verif && git checkout -- evidence')
    meta['checks'] = checks
    meta['caught_by'] = sorted(p for p, v in checks.items() if v['exit'] == 1)
    meta['what_was_run'] = ran
    json.dump(meta, open(f'{out}/meta.json', 'w'), indent=1)
    print(sid, 'confirmed' if ok else 'NOT CONFIRMED', 'caught_by', meta['caught_by'])
    if not ok:
        print({k: v for k, v in meta.items() if k.startswith(('patch', 'own', 'demo_f', 'demo_p'))})

try:
    main()
finally:
    restore_dev_full()
