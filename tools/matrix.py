#!/usr/bin/env python3
"""matrix.py [--workers N] [--seeds] [--mutants] [--only substr,...] [--props C01,C02|all]

Runs checks against scratch worktrees of /repo carrying one patch each (seeded changes and/or
mutants), in parallel, through tools/altcheck.sh — /repo itself and /verif/evidence are not touched.
Results:
  seeded/<id>/meta.json        gets "checks" (all 16 quick checks) and "caught_by"
  mutants/last_selftest_full.json   [name, own-tests verdict, {prop: [exit, sigs, wall]}]
"""
import json, os, re, subprocess, sys, time, glob, shutil, threading, queue, importlib.util

def sh(cmd, **kw):
    return subprocess.run(cmd, shell=True, stdout=subprocess.PIPE, stderr=subprocess.STDOUT, text=True, **kw)

ALL = [f'C{i:02d}' for i in range(1, 17)]

def load_expect():
    src = open('/verif/mutants/selftest.py').read()
    m = re.search(r'EXPECT = \{.*?\n\}', src, re.S)
    ns = {}
    exec(m.group(0), ns)
    return ns['EXPECT']

def restore_dev_full():
    """a broken CLI under observation (e.g. one that deletes its output file on a write error) can remove
    or replace /dev/full on this machine; put the device back so that later runs judge the program"""
    import stat
    try:
        ok = stat.S_ISCHR(os.stat('/dev/full').st_mode)
    except OSError:
        ok = False
    if not ok:
        subprocess.run('rm -f /dev/full; mknod -m 666 /dev/full c 1 7', shell=True)
        print('NOTE: /dev/full had been removed or replaced by a program under observation; device node restored', flush=True)

def main():
    args = sys.argv[1:]
    workers = 3
    if '--workers' in args:
        workers = int(args[args.index('--workers') + 1])
    only = None
    if '--only' in args:
        only = args[args.index('--only') + 1].split(',')
    props_arg = None
    if '--props' in args:
        props_arg = args[args.index('--props') + 1]
    items = []
    if '--seeds' in args:
        for d in sorted(glob.glob('/verif/seeded/*/')):
            sid = os.path.basename(d.rstrip('/'))
            items.append(('seed', sid, d + 'patch.diff'))
    if '--mutants' in args:
        for f in sorted(glob.glob('/verif/mutants/*.diff')):
            items.append(('mutant', os.path.basename(f)[:-5], f))
    if only:
        items = [i for i in items if any(o in i[1] for o in only)]
    expect = load_expect()
    q = queue.Queue()
    for it in items:
        q.put(it)
    results = {}
    lock = threading.Lock()

    def worker(k):
        out = f'/tmp/xsg-mx-{os.getpid()}-{k}-out'
        while True:
            try:
                kind, name, patch = q.get_nowait()
            except queue.Empty:
                return
            wt = f'/tmp/xsg-mx-{os.getpid()}-{k}-wt'
            sh(f'git -C /repo worktree remove --force {wt}; rm -rf {wt}')
            sh(f'git -C /repo worktree add -q --detach {wt} HEAD')
            try:
                a = sh(f'git -C {wt} apply {patch}')
                if a.returncode != 0:
                    with lock:
                        results[(kind, name)] = ('patch-failed', {})
                    print(name, 'PATCH DOES NOT APPLY', flush=True)
                    continue
                tests = 'not-run'
                if kind == 'mutant':
                    t = sh(f'cd {wt} && CARGO_NET_OFFLINE=true CARGO_TARGET_DIR={out}/repotarget cargo test --offline 2>&1 | grep "test result" | head -1')
                    tests = 'pass' if re.search(r'ok\. 102 passed; 0 failed', t.stdout) else ('FAIL ' + t.stdout.strip()[:80])
                if props_arg == 'target' and kind == 'seed':
                    props = [json.load(open(f'/verif/seeded/{name}/meta.json'))['breaks_property']]
                elif props_arg == 'all' or (props_arg is None and kind == 'seed'):
                    props = ALL
                elif props_arg:
                    props = props_arg.split(',')
                else:
                    props = expect.get(name, [])
                res = {}
                for p in props:
                    t0 = time.time()
                    c = sh(f'/verif/tools/altcheck.sh {wt} {out} {p} --tier quick')
                    sigs = re.findall(r'signature: (\S+)', c.stdout)
                    res[p] = [c.returncode, sigs[:4], round(time.time() - t0, 1)]
                with lock:
                    results[(kind, name)] = (tests, res)
                caught = sorted(p for p, v in res.items() if v[0] == 1)
                print(kind, name, 'tests:', tests, 'caught_by', caught, 'exit2:', sorted(p for p, v in res.items() if v[0] == 2), flush=True)
                if kind == 'seed':
                    mp = f'/verif/seeded/{name}/meta.json'
                    meta = json.load(open(mp))
                    ch = meta.get('checks', {}) if props_arg == 'target' else {}
                    ch.update({p: {'exit': v[0], 'signatures': v[1], 'wall_s': v[2]} for p, v in res.items()})
                    meta['checks'] = ch
                    meta['caught_by'] = sorted(p for p, v in ch.items() if v['exit'] == 1)
                    meta['inconclusive_in'] = sorted(p for p, v in ch.items() if v['exit'] == 2)
                    meta['matrix_run'] = 'all 16 quick checks through tools/altcheck.sh on a scratch worktree with the patch applied'
                    json.dump(meta, open(mp, 'w'), indent=1)
            finally:
                sh(f'git -C /repo worktree remove --force {wt}; rm -rf {wt}')

    ts = [threading.Thread(target=worker, args=(k,)) for k in range(workers)]
    for t in ts:
        t.start()
    for t in ts:
        t.join()
    for k in range(workers):
        shutil.rmtree(f'/tmp/xsg-mx-{os.getpid()}-{k}-out', ignore_errors=True)
    sh('git -C /repo worktree prune')
    if '--mutants' in args:
        rows = [[name, tests, res] for (kind, name), (tests, res) in sorted(results.items()) if kind == 'mutant']
        # merge with an earlier file when only a subset ran
        path = '/verif/mutants/last_selftest_full.json'
        old = {r[0]: r for r in json.load(open(path))} if os.path.exists(path) else {}
        for r in rows:
            old[r[0]] = r
        json.dump([old[k] for k in sorted(old)], open(path, 'w'), indent=1)
        missed = [(n, p) for n, t, res in rows for p, v in res.items() if v[0] != 1]
        print('MUTANTS MISSED:', missed)
        print('MUTANTS FAILING OWN TESTS:', [(n, t) for n, t, res in rows if t != 'pass'])
try:
    main()
finally:
    restore_dev_full()
