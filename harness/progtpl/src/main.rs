fn main(){}
