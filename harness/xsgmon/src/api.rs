//! C15 (public list merge) and C16 (hand-built element trees): API-level monitors.

use std::fmt::{Debug, Display};

use serde::{Deserialize, Serialize};
use serde_json::{json, Value};
use xml_schema_generator::{merge_necessity, Element, Necessity};

use crate::extract;
use crate::gen::{fnv64, Rng};
use crate::hist::guarded;
use crate::real;
use crate::report::Report;

// ---------------------------------------------------------------------------------------
// C15
// ---------------------------------------------------------------------------------------

/// (item, mandatory)
pub type Tagged = Vec<(u8, bool)>;

/// reference merge, written from the statement
pub fn reference_merge(v: &Tagged, o: &Tagged) -> Tagged {
    let mut out: Tagged = Vec::new();
    for (x, m) in v {
        let both = *m && o.iter().any(|(y, n)| y == x && *n);
        out.push((*x, both));
    }
    for (y, _) in o {
        if !v.iter().any(|(x, _)| x == y) {
            out.push((*y, false));
        }
    }
    out
}

/// all duplicate-free ordered lists over 0..alphabet with every tag assignment
pub fn all_tagged_lists(alphabet: u8) -> Vec<Tagged> {
    fn go(alphabet: u8, cur: &mut Tagged, out: &mut Vec<Tagged>) {
        out.push(cur.clone());
        for x in 0..alphabet {
            if cur.iter().any(|(y, _)| *y == x) {
                continue;
            }
            for m in [false, true] {
                cur.push((x, m));
                go(alphabet, cur, out);
                cur.pop();
            }
        }
    }
    let mut out = Vec::new();
    go(alphabet, &mut Vec::new(), &mut out);
    out
}

thread_local! {
    /// allocation shape of the next lists handed to merge_necessity: 0 exact capacity, 1 spare capacity
    /// (room for both lists), 2 grown by pushes from an empty Vec
    static ALLOC_SHAPE: std::cell::Cell<(u8, u8)> = const { std::cell::Cell::new((0, 0)) };
    static ALLOC_TURN: std::cell::Cell<u8> = const { std::cell::Cell::new(0) };
}

fn shaped<T>(items: Vec<Necessity<T>>, shape: u8, other_len: usize) -> Vec<Necessity<T>> {
    match shape {
        1 => {
            let mut v = Vec::with_capacity(items.len() + other_len + 3);
            v.extend(items);
            v
        }
        2 => {
            let mut v = Vec::new();
            for i in items {
                v.push(i);
            }
            v
        }
        _ => {
            let mut v = items;
            v.shrink_to_fit();
            v
        }
    }
}

fn to_nec<T>(l: &Tagged, f: &dyn Fn(u8) -> T) -> Vec<Necessity<T>> {
    let items: Vec<Necessity<T>> = l
        .iter()
        .map(|(x, m)| if *m { Necessity::Mandatory(f(*x)) } else { Necessity::Optional(f(*x)) })
        .collect();
    // first call of a pair shapes the first list, second call the second list
    let turn = ALLOC_TURN.with(|t| {
        let v = t.get();
        t.set(v ^ 1);
        v
    });
    let (a, b) = ALLOC_SHAPE.with(|s| s.get());
    shaped(items, if turn == 0 { a } else { b }, 8)
}

fn from_nec<T>(l: &[Necessity<T>], f: &dyn Fn(&T) -> u8) -> Tagged {
    l.iter()
        .map(|n| match n {
            Necessity::Mandatory(x) => (f(x), true),
            Necessity::Optional(x) => (f(x), false),
        })
        .collect()
}

const SYMS: &[&str] = &["a", "b", "c", "d", "e", "f", "g", "h", "i", "j", "k", "l", "m", "n", "o", "p"];

fn classify_merge_diff(got: &Tagged, want: &Tagged) -> &'static str {
    let mut g: Vec<u8> = got.iter().map(|x| x.0).collect();
    let mut w: Vec<u8> = want.iter().map(|x| x.0).collect();
    if g == w {
        return "necessity";
    }
    g.sort();
    w.sort();
    if g == w {
        "order"
    } else {
        "membership"
    }
}

/// an item type whose equality looks at the key only (payload and its length differ between lists)
#[derive(Clone, Debug)]
pub struct Keyed {
    pub key: u16,
    pub payload: String,
}
impl PartialEq for Keyed {
    fn eq(&self, other: &Keyed) -> bool {
        self.key == other.key
    }
}

pub type TaggedWide = Vec<(u16, bool)>;

thread_local! {
    static PAYLOAD_SWAPPED: std::cell::Cell<bool> = const { std::cell::Cell::new(false) };
}

pub fn reference_merge_wide(v: &TaggedWide, o: &TaggedWide) -> TaggedWide {
    let mut out: TaggedWide = Vec::new();
    for (x, m) in v {
        let both = *m && o.iter().any(|(y, n)| y == x && *n);
        out.push((*x, both));
    }
    for (y, _) in o {
        if !v.iter().any(|(x, _)| x == y) {
            out.push((*y, false));
        }
    }
    out
}

/// long lists over a large alphabet through u16 items, long Strings, and the key-only-equality type
pub fn check_merge_wide(kind: u8, v: &TaggedWide, o: &TaggedWide, rep: &mut Report) {
    rep.evaluations += 1;
    let want = reference_merge_wide(v, o);
    let nec = |l: &TaggedWide, f: &dyn Fn(u16) -> Keyed| -> Vec<Necessity<Keyed>> {
        l.iter().map(|(x, m)| if *m { Necessity::Mandatory(f(*x)) } else { Necessity::Optional(f(*x)) }).collect()
    };
    let got: Result<TaggedWide, String> = match kind {
        0 => guarded(|| {
            let a: Vec<Necessity<u16>> = v.iter().map(|(x, m)| if *m { Necessity::Mandatory(*x) } else { Necessity::Optional(*x) }).collect();
            let b: Vec<Necessity<u16>> = o.iter().map(|(x, m)| if *m { Necessity::Mandatory(*x) } else { Necessity::Optional(*x) }).collect();
            merge_necessity(a, b).iter().map(|n| (*n.inner_t(), matches!(n, Necessity::Mandatory(_)))).collect()
        }),
        1 => guarded(|| {
            // long strings sharing long prefixes
            let f = |x: u16| format!("{}-{}", "a-long-common-prefix-shared-by-all-items-".repeat(1 + (x % 3) as usize), x);
            let a: Vec<Necessity<String>> = v.iter().map(|(x, m)| if *m { Necessity::Mandatory(f(*x)) } else { Necessity::Optional(f(*x)) }).collect();
            let b: Vec<Necessity<String>> = o.iter().map(|(x, m)| if *m { Necessity::Mandatory(f(*x)) } else { Necessity::Optional(f(*x)) }).collect();
            merge_necessity(a, b)
                .iter()
                .map(|n| (n.inner_t().rsplit('-').next().unwrap().parse::<u16>().unwrap(), matches!(n, Necessity::Mandatory(_))))
                .collect()
        }),
        _ => guarded(|| {
            let a = nec(v, &|x| Keyed { key: x, payload: "first".into() });
            let mut b = Vec::with_capacity(v.len() + o.len() + 4);
            b.extend(nec(o, &|x| Keyed { key: x, payload: format!("second list, other payload {}", x) }));
            let merged = merge_necessity(a, b);
            // "items of the first list ... come first": those are the first list's instances
            for n in merged.iter() {
                let from_first = v.iter().any(|(x, _)| *x == n.inner_t().key);
                if from_first != (n.inner_t().payload == "first") {
                    PAYLOAD_SWAPPED.with(|p| p.set(true));
                }
            }
            merged.iter().map(|n| (n.inner_t().key, matches!(n, Necessity::Mandatory(_)))).collect()
        }),
    };
    if PAYLOAD_SWAPPED.with(|p| p.replace(false)) {
        rep.violation(
            "merge:instance-of-first-list-replaced",
            format!("an item shared by both lists came back with the second list's payload (equality looks at the key only)\nfirst: {:?}\nsecond: {:?}", v, o),
            json!({"kind": "merge-wide", "v": v, "o": o, "elem": kind}),
        );
    }
    match got {
        Ok(got) => {
            if got != want {
                let kind_s = {
                    let mut g: Vec<u16> = got.iter().map(|x| x.0).collect();
                    let mut w: Vec<u16> = want.iter().map(|x| x.0).collect();
                    if g == w {
                        "necessity"
                    } else {
                        g.sort();
                        w.sort();
                        if g == w {
                            "order"
                        } else {
                            "membership"
                        }
                    }
                };
                rep.violation(
                    &format!("merge:{}", kind_s),
                    format!(
                        "merge_necessity on lists of {} and {} items (element type {}) = {:?}, expected {:?}\nfirst: {:?}\nsecond: {:?}",
                        v.len(),
                        o.len(),
                        ["u16", "long String", "key-only PartialEq"][kind as usize],
                        got,
                        want,
                        v,
                        o
                    ),
                    json!({"kind": "merge-wide", "v": v, "o": o, "elem": kind}),
                );
            }
        }
        Err(p) => rep.violation("merge:panic", format!("merge_necessity panicked: {}", p), json!({"kind": "merge-wide", "v": v, "o": o, "elem": kind})),
    }
}

/// which element type to push the pair through
pub fn merge_via(kind: u8, v: &Tagged, o: &Tagged) -> Result<Tagged, String> {
    match kind {
        0 => guarded(|| from_nec(&merge_necessity(to_nec(v, &|x| x), to_nec(o, &|x| x)), &|x| *x)),
        1 => guarded(|| {
            from_nec(
                &merge_necessity(to_nec(v, &|x| SYMS[x as usize].to_string()), to_nec(o, &|x| SYMS[x as usize].to_string())),
                &|s: &String| SYMS.iter().position(|y| y == s).unwrap() as u8,
            )
        }),
        _ => guarded(|| {
            from_nec(
                &merge_necessity(to_nec(v, &|x| SYMS[x as usize]), to_nec(o, &|x| SYMS[x as usize])),
                &|s: &&str| SYMS.iter().position(|y| y == s).unwrap() as u8,
            )
        }),
    }
}

pub fn check_merge_pair(kind: u8, v: &Tagged, o: &Tagged, rep: &mut Report) {
    rep.evaluations += 1;
    // the result must not depend on how the callers' Vecs were allocated
    let shape = ((rep.evaluations % 3) as u8, ((rep.evaluations / 3) % 3) as u8);
    ALLOC_SHAPE.with(|s| s.set(shape));
    ALLOC_TURN.with(|t| t.set(0));
    let want = reference_merge(v, o);
    match merge_via(kind, v, o) {
        Ok(got) => {
            if got != want {
                rep.violation(
                    &format!("merge:{}", classify_merge_diff(&got, &want)),
                    format!(
                        "merge_necessity({:?}, {:?}) = {:?}, expected {:?} ((item, mandatory) pairs; element type {})",
                        v,
                        o,
                        got,
                        want,
                        ["u8", "String", "&str"][kind as usize]
                    ),
                    json!({"kind": "merge", "v": v, "o": o, "elem": kind}),
                );
            }
        }
        Err(p) => rep.violation(
            "merge:panic",
            format!("merge_necessity({:?}, {:?}) panicked: {}", v, o, p),
            json!({"kind": "merge", "v": v, "o": o, "elem": kind}),
        ),
    }
}

pub fn run_c15(thorough: bool, seed: u64, shards: usize) -> (Report, String) {
    let alphabet: u8 = if thorough { 6 } else { 5 };
    let lists = all_tagged_lists(alphabet);
    let n = lists.len();
    let n_random: u64 = if thorough { 16_000_000 } else { 400_000 };
    let rep = crate::report::sharded(shards, |shard| {
        let mut rep = Report::new();
        for (i, v) in lists.iter().enumerate() {
            if i % shards != shard {
                continue;
            }
            for (j, o) in lists.iter().enumerate() {
                // all three element types take turns; u8 always
                check_merge_pair(0, v, o, &mut rep);
                if (i + j) % 4 == 0 {
                    check_merge_pair(1 + ((i + j) / 4 % 2) as u8, v, o, &mut rep);
                }
                if (i + j) % 16 == 1 {
                    let vw: TaggedWide = v.iter().map(|(x, m)| (*x as u16, *m)).collect();
                    let ow: TaggedWide = o.iter().map(|(x, m)| (*x as u16, *m)).collect();
                    check_merge_wide(2, &vw, &ow, &mut rep);
                }
                if !v.is_empty() && !o.is_empty() {
                    rep.nontrivial_enumerated += 1;
                    let new_items = o.iter().filter(|(y, _)| !v.iter().any(|(x, _)| x == y)).count();
                    if new_items >= 2 {
                        rep.count("pairs_with_several_new_items");
                    }
                    if o.iter().any(|(y, n)| v.iter().any(|(x, m)| x == y && m != n)) {
                        rep.count("pairs_with_conflicting_tags");
                    }
                }
            }
        }
        rep.add("exhaustive_pairs", (lists.len() as u64) * ((n + shards - 1 - shard) / shards) as u64);
        // random longer lists
        let mut r = Rng::derive(seed, "C15-random", shard as u64);
        for _ in 0..(n_random / shards as u64) {
            let mut mk = |r: &mut Rng| -> Tagged {
                let len = r.below(13);
                let mut pool: Vec<u8> = (0..16).collect();
                r.shuffle(&mut pool);
                pool.truncate(len);
                pool.into_iter().map(|x| (x, r.chance(1, 2))).collect()
            };
            let v = mk(&mut r);
            let o = mk(&mut r);
            let kind = r.below(3) as u8;
            check_merge_pair(kind, &v, &o, &mut rep);
            rep.count("random_pairs");
            rep.nontrivial.insert(fnv64(format!("{:?}{:?}", v, o).as_bytes()) | (1 << 63));
            if rep.samples.len() < 2 {
                rep.sample(json!({"v": v, "o": o, "merged": reference_merge(&v, &o), "note": "(item, mandatory)"}));
            }
        }
        // long lists around size thresholds, large alphabet, other element types
        for i in 0..(n_random / 40 / shards as u64) {
            let universe: usize = *r.pick(&[40usize, 100, 300, 700, 70_000 % 65_536]);
            let mut mk = |r: &mut Rng| -> TaggedWide {
                let len = match r.below(6) {
                    0 => r.range(60, 70),
                    1 => r.range(126, 130),
                    2 => r.range(250, 260),
                    3 => r.range(0, 30),
                    4 => r.range(500, 520),
                    _ => r.range(30, 300),
                }
                .min(universe);
                let mut pool: Vec<u16> = (0..universe as u16).collect();
                r.shuffle(&mut pool);
                pool.truncate(len);
                pool.into_iter().map(|x| (x, r.chance(1, 2))).collect()
            };
            let v = mk(&mut r);
            let o = mk(&mut r);
            check_merge_wide((i % 3) as u8, &v, &o, &mut rep);
            rep.count("long_list_pairs");
            rep.max("max_list_length", v.len().max(o.len()) as u64);
            rep.nontrivial.insert(fnv64(format!("w{:?}{:?}", v, o).as_bytes()) | (1 << 62));
        }
        rep
    });
    let rule = format!(
        "exhaustive: all {}^2 = {} ordered pairs of duplicate-free tagged lists over an alphabet of {} (every order, every optional/mandatory assignment), element type u8 for every pair and String/&str for every fourth; plus {} random pairs of lists up to length 12 over 16 symbols, plus long lists (lengths around 64, 128, 256, 512 and up to 520 over alphabets of 40..4464 symbols) through u16 items, long Strings with long common prefixes and an item type whose PartialEq looks at a key only. Non-trivial: both lists non-empty; distinct: the pair itself.",
        n,
        n * n,
        alphabet,
        n_random
    );
    (rep, rule)
}

// ---------------------------------------------------------------------------------------
// C16
// ---------------------------------------------------------------------------------------

#[derive(Clone, Debug, PartialEq, Serialize, Deserialize)]
pub enum Op {
    /// add an empty child `name` under the element at `path` (path of child names from the root)
    Add(Vec<u8>, u8),
    /// add a child `name` that carries an attribute, a text and a grandchild: visible if it replaces an existing one
    AddMarked(Vec<u8>, u8),
    Optional(Vec<u8>, u8),
    Remove(Vec<u8>, u8),
    Merge(Vec<u8>, Vec<(u8, bool)>),
    Multiple(Vec<u8>),
    Text(Vec<u8>, bool),
    /// remove the child and keep it (with its subtree and its insertion position) on a clipboard
    Cut(Vec<u8>, u8),
    /// add a clone of the clipboard element under the element at `path`
    Paste(Vec<u8>),
}

const NAMES: &[&str] = &["a", "b", "type", "d", "ns:e", "F", "text", "f"];

fn bound_name(i: u8) -> &'static str {
    crate::model::child_bound(NAMES[i as usize])
}
const ATTRS: &[&str] = &["x", "b", "type", "w", "text"];

#[derive(Clone, Debug, PartialEq)]
pub struct MNode {
    pub name: u8,
    pub text: bool,
    pub multiple: bool,
    pub attrs: Tagged,
    /// (mandatory, child)
    pub children: Vec<(bool, MNode)>,
}

impl MNode {
    fn new(name: u8) -> MNode {
        MNode {
            name,
            text: false,
            multiple: false,
            attrs: vec![],
            children: vec![],
        }
    }
    fn at(&mut self, path: &[u8]) -> Option<&mut MNode> {
        let mut cur = self;
        for p in path {
            cur = cur.children.iter_mut().find(|(_, c)| c.name == *p).map(|(_, c)| c)?;
        }
        Some(cur)
    }
    fn marked(name: u8) -> MNode {
        let mut m = MNode::new(name);
        m.attrs.push((3, true));
        m.text = true;
        m.children.push((true, MNode::new(3)));
        m
    }
    pub fn apply(&mut self, op: &Op, clip: &mut Option<MNode>) {
        match op {
            Op::Add(path, n) | Op::AddMarked(path, n) => {
                let marked = matches!(op, Op::AddMarked(_, _));
                if let Some(p) = self.at(path) {
                    if !p.children.iter().any(|(_, c)| c.name == *n) {
                        p.children.push((true, if marked { MNode::marked(*n) } else { MNode::new(*n) }));
                    }
                }
            }
            Op::Optional(path, n) => {
                if let Some(p) = self.at(path) {
                    if let Some(c) = p.children.iter_mut().find(|(_, c)| c.name == *n) {
                        c.0 = false;
                    }
                }
            }
            Op::Remove(path, n) => {
                if let Some(p) = self.at(path) {
                    p.children.retain(|(_, c)| c.name != *n);
                }
            }
            Op::Merge(path, list) => {
                if let Some(p) = self.at(path) {
                    p.attrs = reference_merge(&p.attrs, list);
                }
            }
            Op::Multiple(path) => {
                if let Some(p) = self.at(path) {
                    p.multiple = true;
                }
            }
            Op::Text(path, on) => {
                if let Some(p) = self.at(path) {
                    p.text = *on;
                }
            }
            Op::Cut(path, n) => {
                if let Some(p) = self.at(path) {
                    if let Some(i) = p.children.iter().position(|(_, c)| c.name == *n) {
                        *clip = Some(p.children.remove(i).1);
                    }
                }
            }
            Op::Paste(path) => {
                if let (Some(c), Some(p)) = (clip.clone(), self.at(path)) {
                    if !p.children.iter().any(|(_, x)| x.name == c.name) {
                        p.children.push((true, c));
                    }
                }
            }
        }
    }
    fn count(&self) -> usize {
        1 + self.children.iter().map(|(_, c)| c.count()).sum::<usize>()
    }
}

pub trait Name: PartialEq + Display + Debug + Clone {
    fn from_static(s: &'static str) -> Self;
}
impl Name for String {
    fn from_static(s: &'static str) -> Self {
        s.to_string()
    }
}
impl Name for &'static str {
    fn from_static(s: &'static str) -> Self {
        s
    }
}

fn real_at<'a, T: Name>(root: &'a mut Element<T>, path: &[u8]) -> Option<&'a mut Element<T>> {
    let mut cur = root;
    for p in path {
        cur = cur.get_child_mut(&T::from_static(NAMES[*p as usize]))?.inner_t_mut();
    }
    Some(cur)
}

fn real_marked<T: Name>(n: u8) -> Element<T> {
    let mut e = Element::new(T::from_static(NAMES[n as usize]), vec![T::from_static(ATTRS[3])]);
    e.text = Some(T::from_static("t"));
    e.add_unique_child(Element::new(T::from_static(NAMES[3]), vec![]));
    e
}

/// apply one op to the real tree; returns what `remove_child` handed back, if the op was a removal
fn real_apply<T: Name>(root: &mut Element<T>, op: &Op, clip: &mut Option<Element<T>>) -> Option<Option<Necessity<Element<T>>>> {
    match op {
        Op::Add(path, n) => {
            if let Some(p) = real_at(root, path) {
                p.add_unique_child(Element::new(T::from_static(NAMES[*n as usize]), vec![]));
            }
            None
        }
        Op::AddMarked(path, n) => {
            if let Some(p) = real_at(root, path) {
                p.add_unique_child(real_marked(*n));
            }
            None
        }
        Op::Optional(path, n) => {
            if let Some(p) = real_at(root, path) {
                p.set_child_optional(&T::from_static(NAMES[*n as usize]));
            }
            None
        }
        Op::Remove(path, n) => real_at(root, path).map(|p| p.remove_child(&T::from_static(NAMES[*n as usize]))),
        Op::Merge(path, list) => {
            if let Some(p) = real_at(root, path) {
                let owned = std::mem::replace(p, Element::new(T::from_static("tmp"), vec![]));
                let l: Vec<Necessity<T>> = list
                    .iter()
                    .map(|(a, m)| {
                        let v = T::from_static(ATTRS[*a as usize]);
                        if *m {
                            Necessity::Mandatory(v)
                        } else {
                            Necessity::Optional(v)
                        }
                    })
                    .collect();
                *p = owned.merge_attr(l);
            }
            None
        }
        Op::Multiple(path) => {
            if let Some(p) = real_at(root, path) {
                p.set_multiple();
            }
            None
        }
        Op::Text(path, on) => {
            if let Some(p) = real_at(root, path) {
                p.text = if *on { Some(T::from_static("t")) } else { None };
            }
            None
        }
        Op::Cut(path, n) => {
            if let Some(p) = real_at(root, path) {
                if let Some(c) = p.remove_child(&T::from_static(NAMES[*n as usize])) {
                    *clip = Some(c.into_inner_t());
                }
            }
            None
        }
        Op::Paste(path) => {
            if let (Some(c), Some(p)) = (clip.clone(), real_at(root, path)) {
                p.add_unique_child(c);
            }
            None
        }
    }
}

/// structural comparison through the public API (children, names, necessity, text, standalone)
fn compare<T: Name>(real: &Element<T>, m: &MNode, path: &str) -> Option<(String, String)> {
    let here = format!("{}/{}", path, NAMES[m.name as usize]);
    if real.name != T::from_static(NAMES[m.name as usize]) {
        return Some(("name".into(), format!("{}: element is called {}", here, real.name)));
    }
    let kids = real.children();
    for (i, a) in kids.iter().enumerate() {
        for b in &kids[i + 1..] {
            if a.inner_t().name == b.inner_t().name {
                return Some(("duplicate-child-name".into(), format!("{}: two children are called {}", here, a.inner_t().name)));
            }
        }
    }
    if real.text.is_some() != m.text {
        return Some(("text".into(), format!("{}: text.is_some()={} expected {}", here, real.text.is_some(), m.text)));
    }
    if real.standalone() == m.multiple {
        return Some(("multiple".into(), format!("{}: standalone()={} but multiple={}", here, real.standalone(), m.multiple)));
    }
    if kids.len() != m.children.len() {
        return Some((
            "child-set".into(),
            format!(
                "{}: children {:?}, expected {:?}",
                here,
                kids.iter().map(|k| k.inner_t().name.to_string()).collect::<Vec<_>>(),
                m.children.iter().map(|(_, c)| NAMES[c.name as usize]).collect::<Vec<_>>()
            ),
        ));
    }
    for n in 0..NAMES.len() as u8 {
        let key = T::from_static(NAMES[n as usize]);
        let got = real.get_child(&key);
        let want = m.children.iter().find(|(_, c)| c.name == n);
        match (got, want) {
            (None, None) => {}
            (Some(g), Some((mand, c))) => {
                if g.inner_t().name != key {
                    return Some(("lookup".into(), format!("{}: get_child({}) returned the child {}", here, key, g.inner_t().name)));
                }
                if matches!(g, Necessity::Mandatory(_)) != *mand {
                    return Some(("necessity".into(), format!("{}: child {} mandatory={} expected {}", here, key, !*mand, *mand)));
                }
                if let Some(d) = compare(g.inner_t(), c, &here) {
                    return Some(d);
                }
            }
            (Some(_), None) => return Some(("lookup".into(), format!("{}: get_child({}) finds a child the model does not have", here, key))),
            (None, Some(_)) => return Some(("lookup".into(), format!("{}: get_child({}) is None but the child was added", here, key))),
        }
    }
    None
}

/// the rendering must be well-formed and carry exactly the model's fields (compared as sets)
fn render_compare<T: Name>(real: &Element<T>, m: &MNode) -> Option<(String, String)> {
    // the same comparison under a text identifier that is itself a plausible field name ("text"),
    // whenever no child is called `text` (then the two bindings would coincide by construction)
    fn has_text_child(m: &MNode) -> bool {
        m.children.iter().any(|(_, c)| NAMES[c.name as usize] == "text" || has_text_child(c))
    }
    if !has_text_child(m) {
        if let Some(v) = render_compare_with(real, m, "text") {
            return Some((format!("{}-with-text-identifier-text", v.0), v.1));
        }
    }
    render_compare_with(real, m, "$text")
}

fn render_compare_with<T: Name>(real: &Element<T>, m: &MNode, text_id: &str) -> Option<(String, String)> {
    let out = match guarded(|| real.to_serde_struct(&real::opts("@", text_id, "Serialize, Deserialize", false))) {
        Ok(o) => o,
        Err(p) => return Some(("render-panic".into(), p)),
    };
    // siblings whose PascalCase names coincide (F / f) give two structs of one name: that is the listed
    // C04 finding, not something a construction history adds; such trees are judged on everything else
    fn pascal_twins(m: &MNode) -> bool {
        use convert_string::ConvertString;
        let names: Vec<String> = m.children.iter().map(|(_, c)| NAMES[c.name as usize].to_string().to_pascal_case()).collect();
        for (i, a) in names.iter().enumerate() {
            if names[i + 1..].contains(a) {
                return true;
            }
        }
        m.children.iter().any(|(_, c)| pascal_twins(c))
    }
    if pascal_twins(m) {
        return None;
    }
    let (structs, complaints) = extract::wellformed_complaints(&out);
    if let Some(c) = complaints.first() {
        return Some((format!("render-malformed:{}", c.sig), format!("{}\n{}", c.detail, out)));
    }
    let structs = structs?;
    let mut names: Vec<&str> = structs.iter().map(|s| s.name.as_str()).collect();
    names.sort();
    if names.windows(2).any(|w| w[0] == w[1]) {
        return Some(("render-malformed:dup-struct".into(), format!("duplicate struct name\n{}", out)));
    }
    let etree = match extract::build_tree(&structs, "@", text_id) {
        Ok(t) => t,
        Err(e) => return Some(("render-untreeable".into(), format!("{}\n{}", e, out))),
    };
    fn walk(e: &extract::ENode, m: &MNode, path: &str) -> Option<String> {
        let here = format!("{}/{}", path, NAMES[m.name as usize]);
        let mut got: Vec<(String, bool)> = e.attrs.iter().map(|a| (a.bound.clone(), a.optional)).collect();
        let mut want: Vec<(String, bool)> = m.attrs.iter().map(|(a, mand)| (ATTRS[*a as usize].to_string(), !*mand)).collect();
        got.sort();
        want.sort();
        if got != want {
            return Some(format!("{}: attribute fields (name, optional) {:?}, tree has {:?}", here, got, want));
        }
        if e.text.is_some() != m.text {
            return Some(format!("{}: text field present={} but tree text={}", here, e.text.is_some(), m.text));
        }
        let mut got: Vec<(String, bool, bool, bool)> = e.children.iter().map(|c| (c.bound.clone(), c.optional, c.vec, c.node.is_none())).collect();
        let mut want: Vec<(String, bool, bool, bool)> = m
            .children
            .iter()
            .map(|(mand, c)| {
                (
                    bound_name(c.name).to_string(),
                    !*mand,
                    c.multiple,
                    c.text && c.attrs.is_empty() && c.children.is_empty(),
                )
            })
            .collect();
        got.sort();
        want.sort();
        if got != want {
            return Some(format!("{}: child fields (name, optional, vec, String-typed) {:?}, tree has {:?}", here, got, want));
        }
        for ec in &e.children {
            if let Some(sub) = &ec.node {
                let mc = m.children.iter().find(|(_, c)| bound_name(c.name) == ec.bound).unwrap();
                if let Some(d) = walk(sub, &mc.1, &here) {
                    return Some(d);
                }
            }
        }
        None
    }
    walk(&etree, m, "").map(|d| ("render-mismatch".to_string(), format!("{}\n{}", d, out)))
}

fn op_kind(op: &Op) -> &'static str {
    match op {
        Op::Add(..) => "add",
        Op::AddMarked(..) => "add-marked",
        Op::Optional(..) => "set-optional",
        Op::Remove(..) => "remove",
        Op::Merge(..) => "merge-attr",
        Op::Multiple(..) => "set-multiple",
        Op::Text(..) => "text",
        Op::Cut(..) => "cut",
        Op::Paste(..) => "paste",
    }
}

pub fn run_sequence<T: Name>(ops: &[Op], ty: &str, rep: &mut Report) {
    crate::report::journal_enter(|| json!({"kind": "ops", "ops": ops, "elem": ty}));
    rep.evaluations += 1;
    let case = || json!({"kind": "ops", "ops": ops, "elem": ty});
    let mut model = MNode::new(0);
    let mut real: Element<T> = Element::new(T::from_static(NAMES[0]), vec![]);
    let mut mclip: Option<MNode> = None;
    let mut rclip: Option<Element<T>> = None;
    for (step, op) in ops.iter().enumerate() {
        let before = model.clone();
        model.apply(op, &mut mclip);
        let removed = match guarded(|| real_apply(&mut real, op, &mut rclip)) {
            Ok(r) => r,
            Err(p) => {
                rep.violation("tree:panic", format!("step {} {:?} panicked: {}", step + 1, op, p), case());
                return;
            }
        };
        rep.count("operations_applied");
        if let (Op::Remove(path, n), Some(got)) = (op, &removed) {
            // what was handed back must be the addressed child with its subtree
            let mut b = before.clone();
            let want = b.at(path).and_then(|p| p.children.iter().find(|(_, c)| c.name == *n).cloned());
            match (got, want) {
                (None, None) => {}
                (Some(g), Some((mand, c))) => {
                    rep.count("removals_of_present_child");
                    if matches!(g, Necessity::Mandatory(_)) != mand {
                        rep.violation("tree:remove-wrong", format!("step {}: removed child has the wrong necessity", step + 1), case());
                        return;
                    }
                    if let Some((_, d)) = compare(g.inner_t(), &c, "(removed)") {
                        rep.violation("tree:remove-wrong", format!("step {} {:?}: returned child differs from the one added: {}", step + 1, op, d), case());
                        return;
                    }
                }
                (Some(g), None) => {
                    rep.violation("tree:remove-wrong", format!("step {} {:?}: returned a child {} that is not present", step + 1, op, g.inner_t().name), case());
                    return;
                }
                (None, Some(_)) => {
                    rep.violation("tree:remove-wrong", format!("step {} {:?}: returned None for a present child", step + 1, op), case());
                    return;
                }
            }
        }
        if let Some((sig, d)) = compare(&real, &model, "") {
            rep.violation(
                &format!("tree:{}-after-{}", sig, op_kind(op)),
                format!("after step {} of {:?} ({}): {}", step + 1, ops, ty, d),
                case(),
            );
            return;
        }
        if let Some((sig, d)) = render_compare(&real, &model) {
            rep.violation(&format!("tree:{}", sig), format!("after step {} of {:?} ({}): {}", step + 1, ops, ty, d), case());
            return;
        }
        rep.count("states_compared");
        if matches!(op, Op::Add(..) | Op::AddMarked(..)) && before == model {
            rep.count("adds_of_present_name");
        }
        if matches!(op, Op::Paste(..)) && mclip.is_some() {
            rep.count("pastes_of_previously_used_element");
        }
        if matches!(op, Op::Optional(..)) && before != model {
            rep.count("optional_markings_of_present_child");
        }
    }
    rep.max("max_tree_size", model.count() as u64);
    rep.nontrivial.insert(fnv64(format!("{:?}", model).as_bytes()));
}

pub fn op_alphabet() -> Vec<Op> {
    vec![
        Op::Add(vec![], 1),
        Op::Add(vec![], 2),
        Op::AddMarked(vec![], 1),
        Op::Add(vec![1], 2),
        Op::Optional(vec![], 1),
        Op::Optional(vec![], 2),
        Op::Optional(vec![1], 2),
        Op::Remove(vec![], 1),
        Op::Remove(vec![], 2),
        Op::Remove(vec![1], 2),
        Op::Merge(vec![], vec![(0, true)]),
        Op::Merge(vec![], vec![(0, false), (1, true)]),
        Op::Merge(vec![], vec![(0, false)]),
        Op::Merge(vec![1], vec![(2, true), (1, true)]),
        Op::Multiple(vec![1]),
        Op::Text(vec![], true),
        Op::Text(vec![1], true),
        Op::Text(vec![1], false),
        Op::Cut(vec![], 1),
        Op::Cut(vec![], 2),
        Op::Paste(vec![]),
        Op::Paste(vec![1]),
    ]
}

fn random_op(r: &mut Rng, model: &MNode) -> Op {
    // pick an existing path (random walk)
    let mut path: Vec<u8> = Vec::new();
    let mut cur = model;
    while !cur.children.is_empty() && r.chance(1, 2) && path.len() < 4 {
        let (_, c) = r.pick(&cur.children);
        path.push(c.name);
        cur = c;
    }
    let n = r.below(NAMES.len()) as u8;
    match r.below(15) {
        12 | 13 => return Op::Cut(path, n),
        14 => return Op::Paste(path),
        _ => {}
    }
    match r.below(12) {
        0..=2 => Op::Add(path, n),
        3 => Op::AddMarked(path, n),
        4 | 5 => Op::Optional(path, n),
        6 | 7 => Op::Remove(path, n),
        8 | 9 => {
            let len = r.below(4);
            let mut pool: Vec<u8> = (0..5).collect();
            r.shuffle(&mut pool);
            pool.truncate(len);
            Op::Merge(path, pool.into_iter().map(|a| (a, r.chance(1, 2))).collect())
        }
        10 => Op::Multiple(path),
        _ => Op::Text(path, r.chance(2, 3)),
    }
}


// ---------------------------------------------------------------------------------------
// Wide hand-built trees: one parent with N children (N at decimal round numbers, powers of two +-1 and
// seeded log-uniform magnitudes), then a random sequence of add / add-again / mark-optional / remove /
// lookup on names inside and outside the set, checked after every step against a map model through
// children(), get_child(), get_child_mut() and remove_child(), and through the rendering.
// Every child carries a grandchild with a unique marker name so that "the child with the given name"
// and "marking optional preserves the subtree" are observable.
// ---------------------------------------------------------------------------------------

struct WideChild {
    name: String,
    optional: bool,
    marker: String,
}

fn wide_fail(rep: &mut Report, sig: &str, detail: String, width: usize, log: &[String]) {
    let tail: Vec<&String> = log.iter().rev().take(12).rev().collect();
    rep.violation(sig, detail, json!({"wide_tree_width": width, "ops_total": log.len(), "last_ops": tail}));
}

fn wide_compare(real: &Element<String>, model: &[WideChild], rep: &mut Report, width: usize, log: &[String], render: bool) -> bool {
    let kids = real.children();
    if kids.len() != model.len() {
        wide_fail(rep, "wide:children-count", format!("children() has {} entries, the model {}", kids.len(), model.len()), width, log);
        return false;
    }
    let mut seen = std::collections::HashSet::new();
    for k in kids {
        if !seen.insert(k.inner_t().name.clone()) {
            wide_fail(rep, "wide:duplicate-child-name", format!("child name {} occurs twice under one parent", k.inner_t().name), width, log);
            return false;
        }
    }
    for m in model {
        match real.get_child(&m.name) {
            None => {
                wide_fail(rep, "wide:lookup-misses-present-child", format!("get_child({}) is None although the child was added and never removed", m.name), width, log);
                return false;
            }
            Some(c) => {
                let opt = matches!(c, Necessity::Optional(_));
                let e = c.inner_t();
                let marker_ok = e.children().len() == 1 && e.children()[0].inner_t().name == m.marker;
                if e.name != m.name || opt != m.optional || !marker_ok {
                    wide_fail(
                        rep,
                        "wide:lookup-wrong-child",
                        format!("get_child({}) returned name={} optional={} (model optional={}) marker-ok={}", m.name, e.name, opt, m.optional, marker_ok),
                        width,
                        log,
                    );
                    return false;
                }
            }
        }
    }
    if render {
        let out = match crate::hist::guarded(|| real.to_serde_struct(&crate::real::opts_qx(false))) {
            Ok(o) => o,
            Err(p) => {
                wide_fail(rep, "wide:render-panic", p, width, log);
                return false;
            }
        };
        rep.count("wide_tree_renderings");
        match crate::extract::parse_rendered(&out) {
            Err(e) => {
                wide_fail(rep, "wide:render-unparsable", e, width, log);
                return false;
            }
            Ok(structs) => {
                let root = &structs[0];
                let mut want: Vec<(String, bool)> = model.iter().map(|m| (m.name.clone(), m.optional)).collect();
                let mut got: Vec<(String, bool)> = root.fields.iter().map(|f| (f.binding().to_string(), f.optional)).collect();
                want.sort();
                got.sort();
                if want != got || root.fields.iter().any(|f| f.vec) || structs.len() != 1 + 2 * model.len() {
                    let diff: Vec<&(String, bool)> = want.iter().filter(|w| !got.contains(w)).chain(got.iter().filter(|g| !want.contains(g))).take(6).collect();
                    wide_fail(
                        rep,
                        "wide:render-differs-from-tree",
                        format!("root struct has {} fields / {} structs, the model {} children; differing (name, optional): {:?}", got.len(), structs.len(), want.len(), diff),
                        width,
                        log,
                    );
                    return false;
                }
            }
        }
    }
    true
}

pub fn wide_widths(r: &mut Rng, thorough: bool) -> Vec<usize> {
    let mut v: Vec<usize> = vec![2, 7, 8, 9, 12, 15, 16, 17, 20, 23, 24, 25, 26, 30, 31, 32, 33, 40, 48, 50, 63, 64, 65, 100, 127, 128, 129, 200, 255, 256, 257, 300];
    if thorough {
        v.extend_from_slice(&[500, 511, 512, 513, 1000, 1023, 1024, 1025]);
    }
    for _ in 0..(if thorough { 24 } else { 6 }) {
        let (a, b) = (2f64.ln(), (if thorough { 1500f64 } else { 400f64 }).ln());
        let u = r.below(1_000_000) as f64 / 1_000_000.0;
        v.push(((a + (b - a) * u).exp() as usize).max(2));
    }
    v
}

pub fn run_wide_tree(width: usize, r: &mut Rng, rep: &mut Report) {
    let mut uid = 0u64;
    let mut mk = |name: &str| -> (Element<String>, String) {
        uid += 1;
        let marker = format!("g{}", uid);
        let mut e = Element::new(name.to_string(), vec![]);
        e.add_unique_child(Element::new(marker.clone(), vec!["k".to_string()]));
        (e, marker)
    };
    let name_of = |i: usize| format!("c{:04}", i);
    let mut real: Element<String> = Element::new("root".to_string(), vec![]);
    let mut model: Vec<WideChild> = Vec::new();
    let mut log: Vec<String> = Vec::new();
    for i in 0..width {
        let (e, marker) = mk(&name_of(i));
        real.add_unique_child(e);
        model.push(WideChild { name: name_of(i), optional: false, marker });
        log.push(format!("add {}", name_of(i)));
    }
    rep.count("wide_trees");
    rep.max("max_children_of_a_hand_built_parent", width as u64);
    if !wide_compare(&real, &model, rep, width, &log, true) {
        return;
    }
    let n_ops = r.range(12, 40);
    for step in 0..n_ops {
        // names mostly inside the current set, sometimes outside (new or removed)
        let name = if r.chance(4, 5) && !model.is_empty() { model[r.below(model.len())].name.clone() } else { name_of(r.below(width + 8)) };
        let present = model.iter().position(|m| m.name == name);
        match r.below(5) {
            0 | 1 => {
                let (e, marker) = mk(&name);
                real.add_unique_child(e);
                log.push(format!("add {}", name));
                if present.is_none() {
                    model.push(WideChild { name: name.clone(), optional: false, marker });
                }
            }
            2 => {
                real.set_child_optional(&name);
                log.push(format!("set_child_optional {}", name));
                if let Some(i) = present {
                    model[i].optional = true;
                }
            }
            3 => {
                let got = real.remove_child(&name);
                log.push(format!("remove_child {}", name));
                match (present, got) {
                    (None, None) => {}
                    (Some(i), Some(c)) => {
                        let m = model.remove(i);
                        let e = c.inner_t();
                        if e.name != m.name || e.children().len() != 1 || e.children()[0].inner_t().name != m.marker {
                            wide_fail(rep, "wide:remove-wrong-child", format!("remove_child({}) returned {} with another subtree", m.name, e.name), width, &log);
                            return;
                        }
                    }
                    (Some(_), None) => {
                        wide_fail(rep, "wide:remove-misses-present-child", format!("remove_child({}) returned None for a present child", name), width, &log);
                        return;
                    }
                    (None, Some(c)) => {
                        wide_fail(rep, "wide:remove-returns-absent-child", format!("remove_child({}) returned {} although no such child exists", name, c.inner_t().name), width, &log);
                        return;
                    }
                }
            }
            _ => {
                let got = real.get_child_mut(&name).map(|c| c.inner_t().name.clone());
                log.push(format!("get_child_mut {}", name));
                if got != present.map(|i| model[i].name.clone()) {
                    wide_fail(rep, "wide:lookup-mut-disagrees", format!("get_child_mut({}) gave {:?}, the model {:?}", name, got, present.is_some()), width, &log);
                    return;
                }
            }
        }
        rep.count("wide_tree_ops");
        let render = width <= 40 || step % 8 == 7 || step + 1 == n_ops;
        if !wide_compare(&real, &model, rep, width, &log, render) {
            return;
        }
    }
}

pub fn run_c16(thorough: bool, seed: u64, shards: usize) -> (Report, String) {
    let alphabet = op_alphabet();
    let k = alphabet.len();
    let max_len = if thorough { 5 } else { 4 };
    let n_random: u64 = if thorough { 2_000_000 } else { 60_000 };
    let total: u64 = (k as u64).pow(max_len as u32);
    let rep = crate::report::sharded(shards, |shard| {
        let mut rep = Report::new();
        // every sequence of exactly max_len ops (prefixes are checked step by step, which covers shorter ones)
        let mut idx = shard as u64;
        while idx < total {
            let mut x = idx;
            let mut ops = Vec::with_capacity(max_len);
            for _ in 0..max_len {
                ops.push(alphabet[(x % k as u64) as usize].clone());
                x /= k as u64;
            }
            if idx % 2 == 0 {
                run_sequence::<String>(&ops, "String", &mut rep);
            } else {
                run_sequence::<&'static str>(&ops, "&str", &mut rep);
            }
            if rep.samples.is_empty() && idx > 1000 {
                rep.sample(json!({"ops": ops}));
            }
            idx += shards as u64;
        }
        rep.add("exhaustive_sequences", (total + shards as u64 - 1 - shard as u64) / shards as u64);
        let mut r = Rng::derive(seed, "C16-random", shard as u64);
        for i in 0..(n_random / shards as u64) {
            let len = r.range(5, 40);
            let mut model = MNode::new(0);
            let mut clip = None;
            let mut ops = Vec::new();
            for _ in 0..len {
                let op = random_op(&mut r, &model);
                model.apply(&op, &mut clip);
                ops.push(op);
            }
            if i % 2 == 0 {
                run_sequence::<String>(&ops, "String", &mut rep);
            } else {
                run_sequence::<&'static str>(&ops, "&str", &mut rep);
            }
            rep.count("random_sequences");
            if rep.samples.len() < 2 {
                rep.sample(json!({"ops": ops}));
            }
        }
        // wide parents
        let mut wr = Rng::derive(seed, "C16-wide", 0);
        let widths = wide_widths(&mut wr, thorough);
        for (i, w) in widths.iter().enumerate() {
            if i % shards == shard {
                for rep_i in 0..(if thorough { 12 } else { 3 }) {
                    let mut r = Rng::derive(seed, "C16-wide-ops", (i * 100 + rep_i) as u64);
                    run_wide_tree(*w, &mut r, &mut rep);
                }
            }
        }
        rep
    });
    let rule = format!(
        "exhaustive: all {}^{} = {} sequences of {} ops over an alphabet of {} public operations (add / add-marked / set-optional / remove at root and nested, merge_attr with tagged lists, set_multiple, text, cut = remove and keep, paste = add a previously used element again) on names a, b, type, d, ns:e, F, text starting from Element::new(\"a\"), alternating Element<String> and Element<&str>; after EVERY step the tree is compared with an ordered-map model through children()/get_child()/standalone()/text and through its rendering; plus {} random sequences of 5..40 ops over names a-d at depth <= 4; plus wide parents: N children (N = 2..300 at round numbers and powers of two +-1 and seeded log-uniform magnitudes, thorough to 1500), each carrying a uniquely named grandchild, then 12..40 random add / add-again / set_child_optional / remove_child / get_child_mut ops on names inside and outside the set, compared after every step with a map model through children(), get_child() (name, optionality, subtree marker) and through the rendering (field set and optionality of the root struct, number of structs). Non-trivial/distinct: distinct final model states.",
        k, max_len, total, max_len, k, n_random
    );
    (rep, rule)
}

pub fn replay(property: &str, case: &Value, rep: &mut Report) -> Result<(), String> {
    match (property, case.get("kind").and_then(|k| k.as_str())) {
        ("C15", Some("merge")) => {
            let v: Tagged = serde_json::from_value(case["v"].clone()).map_err(|e| e.to_string())?;
            let o: Tagged = serde_json::from_value(case["o"].clone()).map_err(|e| e.to_string())?;
            let kind = case["elem"].as_u64().unwrap_or(0) as u8;
            check_merge_pair(kind, &v, &o, rep);
            Ok(())
        }
        ("C15", Some("merge-wide")) => {
            let v: TaggedWide = serde_json::from_value(case["v"].clone()).map_err(|e| e.to_string())?;
            let o: TaggedWide = serde_json::from_value(case["o"].clone()).map_err(|e| e.to_string())?;
            check_merge_wide(case["elem"].as_u64().unwrap_or(0) as u8, &v, &o, rep);
            Ok(())
        }
        ("C16", Some("ops")) => {
            let ops: Vec<Op> = serde_json::from_value(case["ops"].clone()).map_err(|e| e.to_string())?;
            if case["elem"].as_str() == Some("&str") {
                run_sequence::<&'static str>(&ops, "&str", rep);
            } else {
                run_sequence::<String>(&ops, "String", rep);
            }
            Ok(())
        }
        _ => Err("case kind does not fit the property".into()),
    }
}
