//! Reader faults: the documents of a history are supplied through a `BufRead` that reports an
//! `io::Error` at a chosen byte offset (once, then carries on; or for good). The observation is made at
//! the public boundary (`into_struct` / `extend_struct` + rendering) and judged by two rules that any
//! implementation honouring the properties satisfies:
//!
//!  * transparent-or-reported — the call returns Err, or it returns Ok and the tree renders
//!    byte-identically to the fault-free run of the same history prefix (the fault was retried or hit
//!    nothing that matters). Ok with any other schema means a document was silently truncated or
//!    dropped: the rendered schema is no longer the one determined by the supplied documents
//!    (C01/C03/C06) and an error of the underlying reader was not reported (C08);
//!  * a fault that never goes away, placed before the end of the root element, must be reported: the
//!    reader cannot deliver the rest of the document, so Ok is impossible without swallowing the error.
//!
//!  * a reader that fails for good is not asked again without bound: after 100 000 failures at the same
//!    offset the reader unwinds into the monitor (`fault:unbounded-retry`; a bound in logical steps, so
//!    the verdict does not depend on the clock).
//!
//! `ErrorKind::Interrupted` is only injected one-shot (std and quick-xml legitimately retry it forever).

use std::io::{BufRead, ErrorKind, Read};

use quick_xml::reader::Reader;
use serde_json::json;
use xml_schema_generator::{extend_struct, into_struct, Element};

use crate::gen::Rng;
use crate::hist::guarded;
use crate::real;
use crate::report::Report;

pub const KINDS: [ErrorKind; 8] = [
    ErrorKind::WouldBlock,
    ErrorKind::TimedOut,
    ErrorKind::Other,
    ErrorKind::UnexpectedEof,
    ErrorKind::BrokenPipe,
    ErrorKind::PermissionDenied,
    ErrorKind::InvalidData,
    ErrorKind::Interrupted,
];

pub const RETRY_LIMIT: u32 = 100_000;
pub const RETRY_MARKER: &str = "XSG-FAULT-RETRY-LIMIT";

pub struct FaultyReader<'a> {
    data: &'a [u8],
    pos: usize,
    chunk: usize,
    at: usize,
    kind: ErrorKind,
    persistent: bool,
    pub fired: u32,
}

impl<'a> FaultyReader<'a> {
    pub fn new(data: &'a [u8], chunk: usize, at: usize, kind: ErrorKind, persistent: bool) -> Self {
        FaultyReader { data, pos: 0, chunk: chunk.max(1), at, kind, persistent, fired: 0 }
    }
}

impl<'a> Read for FaultyReader<'a> {
    fn read(&mut self, buf: &mut [u8]) -> std::io::Result<usize> {
        let avail = self.fill_buf()?;
        let n = avail.len().min(buf.len());
        buf[..n].copy_from_slice(&avail[..n]);
        self.consume(n);
        Ok(n)
    }
}

impl<'a> BufRead for FaultyReader<'a> {
    fn fill_buf(&mut self) -> std::io::Result<&[u8]> {
        if self.pos == self.at && (self.persistent || self.fired == 0) {
            self.fired += 1;
            if self.fired > RETRY_LIMIT {
                // a logical-step bound, not a wall-clock one: the caller asked the failed reader again
                // 100 000 times at the same offset; unwinds to the monitor, which reports it
                panic!("{}", RETRY_MARKER);
            }
            return Err(std::io::Error::new(self.kind, "injected reader fault"));
        }
        let mut end = (self.pos + self.chunk).min(self.data.len());
        if self.pos < self.at && self.at < end {
            end = self.at; // the next fill_buf starts exactly at the fault offset
        }
        Ok(&self.data[self.pos..end])
    }
    fn consume(&mut self, amt: usize) {
        self.pos = (self.pos + amt).min(self.data.len());
    }
}

fn render(t: &Element<String>) -> String {
    format!("{}\n----\n{}", t.to_serde_struct(&real::opts_qx(false)), t.to_serde_struct(&real::opts_qx(true)))
}

/// Injects `budget` faults into one step of the history `texts` (well-formed documents with a common
/// root). Returns the number of injections that actually fired.
pub fn sweep(texts: &[String], r: &mut Rng, budget: usize, rep: &mut Report, origin: &str) -> usize {
    let step = r.below(texts.len());
    // fault-free reference: the tree before the step and the rendering after it
    let reference = guarded(|| {
        let mut base: Option<Element<String>> = None;
        for t in &texts[..step] {
            let mut rd = Reader::from_reader(t.as_bytes());
            base = Some(match base {
                None => into_struct(&mut rd).map_err(|e| e.to_string())?,
                Some(b) => extend_struct(&mut rd, b).map_err(|e| e.to_string())?,
            });
        }
        let mut rd = Reader::from_reader(texts[step].as_bytes());
        let after = match base.clone() {
            None => into_struct(&mut rd).map_err(|e| e.to_string())?,
            Some(b) => extend_struct(&mut rd, b).map_err(|e| e.to_string())?,
        };
        Ok::<_, String>((base, render(&after)))
    });
    let (base, expected) = match reference {
        Ok(Ok(x)) => x,
        // the fault-free run is judged by the ordinary history monitors, not here
        _ => return 0,
    };
    let doc = texts[step].as_bytes();
    // the root element ends with the last '>' of the document (generated documents may carry trailing
    // comments / whitespace: then the bound is conservative only if we use the end tag of the root, so
    // take the offset where the last end tag or empty-element tag of the document starts)
    let root_end = texts[step].rfind("</").or_else(|| texts[step].rfind("/>")).unwrap_or(0);
    let mut fired_total = 0;
    for k in 0..budget {
        let at = match k % 4 {
            0 if k < 4 => 0,
            1 if k < 4 => doc.len().saturating_sub(1),
            2 if k < 4 => doc.len(),
            _ => r.below(doc.len() + 1),
        };
        let kind = KINDS[r.below(KINDS.len())];
        let persistent = kind != ErrorKind::Interrupted && r.chance(1, 2);
        let chunk = *r.pick(&[1usize, 2, 3, 7, 64, 4096, 1 << 20]);
        let desc = json!({"origin": origin, "documents": texts, "step": step, "fault_at_byte": at, "error_kind": format!("{:?}", kind), "persistent": persistent, "chunk": chunk});
        let base2 = base.clone();
        let res = guarded(|| {
            let mut rd = Reader::from_reader(FaultyReader::new(doc, chunk, at, kind, persistent));
            let out = match base2 {
                None => into_struct(&mut rd),
                Some(b) => extend_struct(&mut rd, b),
            };
            let fired = rd.get_ref().fired;
            (out.map(|t| render(&t)).map_err(|e| e.to_string()), fired)
        });
        rep.count("reader faults injected");
        match res {
            Err(p) if p.contains(RETRY_MARKER) => rep.violation(
                "fault:unbounded-retry",
                format!("the call kept asking a reader that fails for good ({:?} at byte {}): {} retries at the same offset without returning", kind, at, RETRY_LIMIT),
                desc,
            ),
            Err(p) => rep.violation("fault:panic", format!("panic with a reader fault: {}", p), desc),
            Ok((out, fired)) => {
                if fired > 0 {
                    fired_total += 1;
                    rep.count("reader faults that fired");
                    rep.count(&format!("reader faults that fired: {:?}{}", kind, if persistent { " (persistent)" } else { " (once)" }));
                }
                match out {
                    Err(_) => {
                        if fired == 0 {
                            rep.violation("fault:error-without-fault", "Err although the injected fault never fired and the document is well-formed".into(), desc);
                        } else {
                            rep.count("reader faults reported as Err");
                        }
                    }
                    Ok(got) => {
                        if got != expected {
                            rep.violation(
                                "fault:ok-with-different-schema",
                                format!("a reader fault ({:?} at byte {}) was answered with Ok and a schema that differs from the fault-free one", kind, at),
                                desc,
                            );
                        } else if fired > 0 && persistent && at < root_end {
                            rep.violation(
                                "fault:io-error-swallowed",
                                format!("the reader failed for good ({:?}) at byte {} before the root element ended (byte {}), yet the call returned Ok", kind, at, root_end),
                                desc,
                            );
                        } else if fired > 0 {
                            rep.count("reader faults absorbed with identical output");
                        }
                    }
                }
            }
        }
    }
    fired_total
}
