//! C12: the command-line program is the library plus a header, and fails cleanly.
//! The real binary is built from /repo's working tree and run in fresh directories; the expected
//! payload is computed in-process through the library; file effects are observed by snapshots and,
//! for a slice of runs, at the syscall boundary with strace.

use std::os::unix::fs::MetadataExt;
use std::path::{Path, PathBuf};
use std::process::{Command, Stdio};

use quick_xml::reader::Reader;
use serde::{Deserialize, Serialize};
use serde_json::{json, Value};
use xml_schema_generator::into_struct;

use crate::bytes;
use crate::gen::{self, fnv64, Rng};
use crate::hist::guarded;
use crate::real;
use crate::report::Report;

const HEADER: &str = "use serde::{Deserialize, Serialize};\n\n";
const SENTINEL: &str = "SENTINEL-CONTENT-OF-A-PRE-EXISTING-OUTPUT-FILE\n";

#[derive(Clone, Debug, Serialize, Deserialize, PartialEq)]
pub enum InputKind {
    Valid,
    Malformed,
    NotUtf8,
    Empty,
    Missing,
    Directory,
}

#[derive(Clone, Debug, Serialize, Deserialize, PartialEq)]
pub enum OutputKind {
    Stdout,
    NewFile,
    ExistingFile,
    MissingDir,
    IsDirectory,
    UnderRegularFile,
    /// a symlink to an existing (longer) file: written through
    Symlink,
    /// relative path, resolved against the working directory of the run
    Relative,
    /// file name with blanks and non-ASCII characters
    OddName,
    /// the output path is the input file itself
    SameAsInput,
    /// /dev/full: can be opened for writing, every write fails (ENOSPC)
    DevFull,
    /// an existing file that already holds the expected payload up to trailing whitespace
    /// (what redirecting an earlier stdout-mode run, or an editor trimming the end, leaves behind)
    ExistingNearCopy,
}

#[derive(Clone, Debug, Serialize, Deserialize)]
pub struct CliCase {
    pub origin: String,
    pub input_kind: InputKind,
    pub input_hex: String,
    /// None: flag absent; Some((flag spelling, value))
    pub parser: Option<(String, String)>,
    pub derive: Option<(String, String)>,
    pub sort: Option<(String, String)>,
    pub output: OutputKind,
    pub strace: bool,
    /// where the options go relative to the positionals: 0 before, 1 after, 2 between
    pub arg_order: u8,
    /// the input path is /dev/stdin and the bytes arrive through a pipe (a non-regular file)
    #[serde(default)]
    pub via_stdin: bool,
    /// process environment: 0 inherited, 1 TMPDIR/HOME point nowhere, 2 empty environment,
    /// 3 other locale / time zone, 4 TMPDIR on another file system (/dev/shm)
    #[serde(default)]
    pub env_variant: u8,
}

fn dev_full_is_device() -> bool {
    use std::os::unix::fs::FileTypeExt;
    std::fs::metadata("/dev/full").map(|m| m.file_type().is_char_device()).unwrap_or(false)
}

impl CliCase {
    pub fn to_json(&self) -> Value {
        json!({
            "kind": "cli",
            "origin": self.origin,
            "input_lossy": String::from_utf8_lossy(&bytes::unhex(&self.input_hex)),
            "case": serde_json::to_value(self).unwrap(),
        })
    }
    pub fn from_json(v: &Value) -> Option<CliCase> {
        serde_json::from_value(v.get("case")?.clone()).ok()
    }
}

pub fn build_binary() -> Result<PathBuf, String> {
    let target = crate::report::out_dir().join("target").join("repobin");
    let out = Command::new("cargo")
        .args(["build", "--release", "--offline", "--bin", "xml_schema_generator", "--manifest-path"])
        .arg(crate::report::repo_dir().join("Cargo.toml"))
        .arg("--target-dir")
        .arg(&target)
        .env("CARGO_NET_OFFLINE", "true")
        .output()
        .map_err(|e| format!("cargo: {}", e))?;
    if !out.status.success() {
        return Err(format!("building the CLI failed: {}", String::from_utf8_lossy(&out.stderr).lines().rev().take(8).collect::<Vec<_>>().join(" | ")));
    }
    let bin = target.join("release").join("xml_schema_generator");
    if bin.exists() {
        Ok(bin)
    } else {
        Err("binary not found after build".into())
    }
}

pub fn gen_cli_case(seed: u64, index: u64, strace: bool) -> CliCase {
    let mut r = Rng::derive(seed, "C12", index);
    let input_kind = match r.below(10) {
        0..=4 => InputKind::Valid,
        5 | 6 => InputKind::Malformed,
        7 => InputKind::NotUtf8,
        8 => {
            if r.chance(1, 2) {
                InputKind::Empty
            } else {
                InputKind::Missing
            }
        }
        _ => InputKind::Directory,
    };
    let input: Vec<u8> = match input_kind {
        InputKind::Valid => {
            let c = crate::hist::random_case(seed, "C12-doc", index, if r.chance(1, 2) { crate::hist::Mix::Names } else { crate::hist::Mix::Schema });
            let mut t = c.texts()[0].clone();
            match r.below(10) {
                0 => {
                    // large document: the rendering exceeds pipe and buffer sizes (8 KiB, 64 KiB, 128 KiB ...)
                    let n = *r.pick(&[60usize, 120, 600, 1300, 2700]);
                    let mut s = String::from("<catalog>");
                    for i in 0..n {
                        s.push_str(&format!("<entry{} id=\"{}\" lang=\"en\"><title>t</title><note k=\"v\"/></entry{}>", i, i, i));
                    }
                    s.push_str("</catalog>");
                    t = s;
                }
                1 => t = format!("{}{}", char::from_u32(0xFEFF).unwrap(), t),
                2 => t = t.replace('\n', "\r\n").replace("><", ">\r\n<"),
                _ => {}
            }
            t.into_bytes()
        }
        InputKind::Malformed if r.chance(1, 3) => {
            // a syntax error preceded by runs of multi-byte characters at every alignment
            let ch = *r.pick(&["ж", "€", "😀", "é", "x"]);
            let n = r.range(5, 60);
            let pad = " ".repeat(r.below(8));
            let body = ch.repeat(n);
            let tail = *r.pick(&["</wrong>", "<!-- unclosed", "<![CDATA[ unclosed", "<b attr=></b></a>", "</a></a>"]);
            format!("<a k=\"{}\">{}{}{}", body, body, pad, tail).into_bytes()
        }
        InputKind::Malformed => {
            // damaged until the flat oracle confirms a fault (or plain text without element)
            let mut out = b"<a><b></a>".to_vec();
            for k in 0..8 {
                let bc = bytes::gen_byte_case(seed, "C12-bad", index * 8 + k, true);
                let b = bc.bytes();
                let flat = bytes::flat_oracle(&b, gen::ReaderKind::Slice);
                if std::str::from_utf8(&b).is_ok() && (flat.fault.is_some() || flat.elements == 0) {
                    out = b;
                    break;
                }
            }
            out
        }
        InputKind::NotUtf8 => {
            let c = crate::hist::random_case(seed, "C12-doc", index, crate::hist::Mix::Schema);
            let mut b = c.texts()[0].clone().into_bytes();
            let at = r.below(b.len() + 1);
            b.insert(at, *r.pick(&[0xFFu8, 0xC3, 0xFE]));
            if std::str::from_utf8(&b).is_ok() {
                b.push(0xFF);
            }
            b
        }
        _ => Vec::new(),
    };
    let parser = match r.below(6) {
        0 | 1 => None,
        2 => Some(("-p".to_string(), "quick-xml-de".to_string())),
        3 => Some(("--parser".to_string(), "serde-xml-rs".to_string())),
        4 => Some(("--parser=".to_string(), "quick-xml-de".to_string())),
        _ => Some(("-p".to_string(), "serde-xml-rs".to_string())),
    };
    let derive_vals: &[&str] = &["Debug, Clone, Debug", "Serialize, Deserialize, Debug, Clone, PartialEq, Default, Debug", "Debug", "", "Serialize, Deserialize, Debug", "Ünï, Clone", "a\"b", "X Y", "Serialize,Deserialize", "derive(A)", "{}", "%s %d"];
    let derive = match r.below(5) {
        0 | 1 => None,
        2 => Some(("-d".to_string(), r.pick(derive_vals).to_string())),
        3 => Some(("--derive".to_string(), r.pick(derive_vals).to_string())),
        _ => Some(("--derive=".to_string(), r.pick(derive_vals).to_string())),
    };
    let sort = match r.below(6) {
        0 | 1 => None,
        2 => Some(("-s".to_string(), "name".to_string())),
        3 => Some(("--sort".to_string(), "unsorted".to_string())),
        4 => Some(("--sort=".to_string(), "name".to_string())),
        _ => Some(("--sort".to_string(), "name".to_string())),
    };
    let output = match r.below(14) {
        0..=2 => OutputKind::Stdout,
        3 | 4 => OutputKind::NewFile,
        5 | 6 => OutputKind::ExistingFile,
        7 => OutputKind::MissingDir,
        8 => OutputKind::IsDirectory,
        9 => OutputKind::UnderRegularFile,
        10 => OutputKind::Symlink,
        11 => OutputKind::Relative,
        12 => OutputKind::OddName,
        13 if r.chance(1, 2) => OutputKind::ExistingNearCopy,
        // only when /dev/full really is the character device (a broken program under observation may
        // have removed or replaced it earlier on this machine; then the case would judge the machine)
        13 if r.chance(1, 2) && dev_full_is_device() => OutputKind::DevFull,
        _ => OutputKind::SameAsInput,
    };
    let via_stdin = matches!(input_kind, InputKind::Valid | InputKind::Malformed | InputKind::NotUtf8 | InputKind::Empty) && output != OutputKind::SameAsInput && r.chance(1, 8);
    CliCase {
        origin: format!("cli:{}:{}", seed, index),
        input_kind,
        input_hex: bytes::hex(&input),
        parser,
        derive,
        sort,
        output,
        strace: strace && !via_stdin,
        arg_order: r.below(3) as u8,
        via_stdin,
        env_variant: if r.chance(1, 3) { r.range(1, 4) as u8 } else { 0 },
    }
}

fn push_opt(args: &mut Vec<String>, o: &Option<(String, String)>) {
    if let Some((flag, val)) = o {
        if flag.ends_with('=') {
            args.push(format!("{}{}", flag, val));
        } else {
            args.push(flag.clone());
            args.push(val.clone());
        }
    }
}

#[derive(Debug)]
struct Snapshot {
    exists: bool,
    is_file: bool,
    ino: u64,
    mtime: (i64, i64),
    bytes: Vec<u8>,
}

fn snapshot(p: &Path) -> Snapshot {
    // state of what the path designates (a symlink is followed: its target is what gets written)
    let link_exists = std::fs::symlink_metadata(p).is_ok();
    match std::fs::metadata(p) {
        Ok(m) => Snapshot {
            exists: true,
            is_file: m.is_file(),
            ino: m.ino(),
            mtime: (m.mtime(), m.mtime_nsec()),
            bytes: if m.is_file() { std::fs::read(p).unwrap_or_default() } else { Vec::new() },
        },
        Err(_) => Snapshot {
            exists: link_exists,
            is_file: false,
            ino: 0,
            mtime: (0, 0),
            bytes: Vec::new(),
        },
    }
}

/// expected payload computed through the library with independently built options
fn expected_payload(case: &CliCase, input: &[u8]) -> Option<String> {
    let text = std::str::from_utf8(input).ok()?;
    let serde_xml_rs = case.parser.as_ref().map(|(_, v)| v == "serde-xml-rs").unwrap_or(false);
    let derive = case.derive.as_ref().map(|(_, v)| v.clone()).unwrap_or_else(|| "Serialize, Deserialize".to_string());
    let sorted = case.sort.as_ref().map(|(_, v)| v == "name").unwrap_or(false);
    // "the library's rendering for the corresponding options": the preset the flag names, with the
    // derive string and the sort order mapped independently of src/args.rs
    let mut o = if serde_xml_rs { xml_schema_generator::Options::serde_xml_rs() } else { xml_schema_generator::Options::quick_xml_de() };
    o.derive = derive.clone();
    o.sort = if sorted { xml_schema_generator::SortBy::XmlName } else { xml_schema_generator::SortBy::Unsorted };
    let tree = guarded(|| {
        let mut r = Reader::from_str(text);
        into_struct(&mut r)
    })
    .ok()?
    .ok()?;
    let body = guarded(|| tree.to_serde_struct(&o)).ok()?;
    Some(format!("{}{}", HEADER, body))
}

pub fn check_cli(bin: &Path, work: &Path, case: &CliCase, serial: u64, rep: &mut Report) {
    rep.evaluations += 1;
    let dir = work.join(format!("run-{}", serial));
    let _ = std::fs::remove_dir_all(&dir);
    if std::fs::create_dir_all(&dir).is_err() {
        rep.inconclusive("cannot create run directory");
        return;
    }
    let input = bytes::unhex(&case.input_hex);
    let in_path = if case.via_stdin { PathBuf::from("/dev/stdin") } else { dir.join("input.xml") };
    match case.input_kind {
        _ if case.via_stdin => {}
        InputKind::Missing => {}
        InputKind::Directory => {
            let _ = std::fs::create_dir(&in_path);
        }
        _ => {
            let _ = std::fs::write(&in_path, &input);
        }
    }
    let expected_early = match case.input_kind {
        InputKind::Valid | InputKind::Malformed | InputKind::Empty => expected_payload(case, &input),
        _ => None,
    };
    let out_path: Option<PathBuf> = match case.output {
        OutputKind::Stdout => None,
        OutputKind::NewFile => Some(dir.join("out.rs")),
        OutputKind::ExistingFile => {
            let p = dir.join("out.rs");
            // longer than any payload would be unusual; repeat so that a missing truncate shows
            let _ = std::fs::write(&p, SENTINEL.repeat(400));
            Some(p)
        }
        OutputKind::MissingDir => Some(dir.join("no-such-dir").join("out.rs")),
        OutputKind::IsDirectory => {
            let p = dir.join("outdir");
            let _ = std::fs::create_dir(&p);
            Some(p)
        }
        OutputKind::UnderRegularFile => {
            let f = dir.join("plainfile");
            let _ = std::fs::write(&f, "x");
            Some(f.join("out.rs"))
        }
        OutputKind::Symlink => {
            let target = dir.join("real-target.rs");
            let _ = std::fs::write(&target, SENTINEL.repeat(400));
            let link = dir.join("link.rs");
            let _ = std::os::unix::fs::symlink(&target, &link);
            Some(link)
        }
        OutputKind::Relative => Some(PathBuf::from("rel-out.rs")),
        OutputKind::OddName => Some(dir.join("out put ü — 日本.rs")),
        OutputKind::SameAsInput => Some(in_path.clone()),
        OutputKind::DevFull => Some(PathBuf::from("/dev/full")),
        OutputKind::ExistingNearCopy => {
            let p = dir.join("out.rs");
            let near = match &expected_early {
                Some(payload) => match fnv64(payload.as_bytes()) % 4 {
                    0 => format!("{}\n", payload),
                    1 => payload.trim_end().to_string(),
                    2 => format!("{}  \n\n", payload.trim_end()),
                    _ => payload.clone(),
                },
                None => SENTINEL.repeat(3),
            };
            let _ = std::fs::write(&p, near);
            Some(p)
        }
    };
    // where the output really lands (for snapshots): relative paths resolve against the run directory
    let out_abs: Option<PathBuf> = out_path.as_ref().map(|p| if p.is_absolute() { p.clone() } else { dir.join(p) });
    let mut opts: Vec<String> = Vec::new();
    push_opt(&mut opts, &case.parser);
    push_opt(&mut opts, &case.derive);
    push_opt(&mut opts, &case.sort);
    let mut pos: Vec<String> = vec![in_path.to_string_lossy().to_string()];
    if let Some(p) = &out_path {
        pos.push(p.to_string_lossy().to_string());
    }
    let args: Vec<String> = match case.arg_order {
        0 => [opts.clone(), pos.clone()].concat(),
        1 => [pos.clone(), opts.clone()].concat(),
        _ => {
            if pos.len() == 2 {
                [vec![pos[0].clone()], opts.clone(), vec![pos[1].clone()]].concat()
            } else {
                [opts.clone(), pos.clone()].concat()
            }
        }
    };
    let before = out_abs.as_ref().map(|p| snapshot(p));
    let strace_log = dir.join("strace.log");
    let mut cmd = if case.strace {
        let mut c = Command::new("strace");
        c.args(["-f", "-qq", "-e", "trace=%file,write", "-o"]).arg(&strace_log).arg(bin);
        c
    } else {
        Command::new(bin)
    };
    match case.env_variant {
        1 => {
            cmd.env("TMPDIR", "/nonexistent-tmp").env("HOME", "/nonexistent-home").env("TMP", "/nonexistent-tmp");
        }
        2 => {
            cmd.env_clear();
        }
        3 => {
            cmd.env("LANG", "tr_TR.UTF-8").env("LC_ALL", "tr_TR.UTF-8").env("TZ", "Pacific/Kiritimati").env("COLUMNS", "20");
        }
        4 => {
            cmd.env("TMPDIR", "/dev/shm");
        }
        _ => {}
    }
    cmd.args(&args)
        .current_dir(&dir)
        .env_remove("RUST_LOG")
        .stdin(if case.via_stdin { Stdio::piped() } else { Stdio::null() })
        .stdout(Stdio::piped())
        .stderr(Stdio::piped());
    let out = match cmd.spawn() {
        Ok(mut child) => {
            if case.via_stdin {
                if let Some(mut si) = child.stdin.take() {
                    use std::io::Write;
                    let data = input.clone();
                    // write on a thread: large inputs and large outputs must not dead-lock the pipes
                    std::thread::spawn(move || {
                        let _ = si.write_all(&data);
                    });
                }
            }
            match child.wait_with_output() {
                Ok(o) => o,
                Err(e) => {
                    rep.inconclusive(&format!("cannot wait for the binary: {}", e));
                    return;
                }
            }
        }
        Err(e) => {
            rep.inconclusive(&format!("cannot run the binary: {}", e));
            return;
        }
    };
    let after = out_abs.as_ref().map(|p| snapshot(p));
    let code = out.status.code();
    let stdout = out.stdout.clone();
    let stderr = out.stderr.clone();

    let expected = match case.input_kind {
        InputKind::Valid | InputKind::Malformed | InputKind::Empty => expected_payload(case, &input),
        _ => None,
    };
    let input_at_fault = expected.is_none();
    let output_creatable = matches!(
        case.output,
        OutputKind::Stdout | OutputKind::NewFile | OutputKind::ExistingFile | OutputKind::Symlink | OutputKind::Relative | OutputKind::OddName | OutputKind::SameAsInput | OutputKind::ExistingNearCopy
    ) && !(case.output == OutputKind::SameAsInput && matches!(case.input_kind, InputKind::Missing | InputKind::Directory));
    rep.count(&format!("input {:?}", case.input_kind));
    rep.count(&format!("output {:?}", case.output));
    if case.env_variant != 0 {
        rep.count(&format!("environment variant {}", case.env_variant));
    }
    if case.via_stdin {
        rep.count("input through a pipe (/dev/stdin)");
    }
    rep.count(if input_at_fault { "expected failure: input" } else if output_creatable { "expected success" } else { "expected failure: output" });
    rep.nontrivial.insert(fnv64(format!("{:?}{:?}{:?}{:?}{:?}{}", case.input_kind, case.parser, case.derive, case.sort, case.output, case.input_hex).as_bytes()));

    let mut complaints: Vec<(String, String)> = Vec::new();
    let mut strace_seen = false;
    let mut complain = |sig: &str, what: String| complaints.push((sig.to_string(), what));

    if !input_at_fault && output_creatable {
        let payload = expected.unwrap();
        if code != Some(0) {
            complain("cli:success-exit-status", "expected exit status 0".into());
        } else if out_path.is_none() {
            let want = format!("{}\n", payload);
            if stdout != want.as_bytes() {
                complain("cli:stdout-payload", format!("stdout is not header + library rendering + newline\nexpected: {:?}", want));
            }
        } else {
            let a = after.as_ref().unwrap();
            if !stdout.is_empty() {
                complain("cli:stdout-not-empty", "an output file was named but stdout is not empty".into());
            } else if !a.exists || a.bytes != payload.as_bytes() {
                complain(
                    "cli:file-payload",
                    format!("output file does not hold exactly header + library rendering\nexpected: {:?}\nfile: {:?}", payload, String::from_utf8_lossy(&a.bytes[..a.bytes.len().min(800)])),
                );
            }
        }
    } else {
        if code != Some(1) {
            complain("cli:failure-exit-status", format!("expected exit status 1 (input at fault: {}, output creatable: {})", input_at_fault, output_creatable));
        } else if stderr.is_empty() {
            complain("cli:no-diagnostic", "failure without a diagnostic on stderr".into());
        } else if !stdout.is_empty() {
            complain("cli:stdout-on-failure", "failure but something was printed on stdout".into());
        } else if input_at_fault {
            if let (Some(b), Some(a)) = (&before, &after) {
                let same = b.exists == a.exists && b.is_file == a.is_file && b.ino == a.ino && b.mtime == a.mtime && b.bytes == a.bytes;
                if !same {
                    complain(
                        "cli:output-touched-on-input-fault",
                        format!("the input was at fault but the output path changed: before exists={} ino={} len={}, after exists={} ino={} len={}", b.exists, b.ino, b.bytes.len(), a.exists, a.ino, a.bytes.len()),
                    );
                }
            }
            if case.strace {
                if let (Some(p), Ok(log)) = (&out_path, std::fs::read_to_string(&strace_log)) {
                    strace_seen = true;
                    let ps = p.to_string_lossy().to_string();
                    for line in log.lines() {
                        if !line.contains(&format!("\"{}\"", ps)) {
                            continue;
                        }
                        let write_intent = line.contains("O_WRONLY") || line.contains("O_RDWR") || line.contains("O_CREAT") || line.contains("O_TRUNC");
                        let call = line.split_whitespace().nth(1).unwrap_or("");
                        let mutating = ["creat(", "truncate(", "rename(", "renameat", "unlink(", "unlinkat(", "mkdir(", "mkdirat(", "link(", "symlink("].iter().any(|c| call.starts_with(c));
                        if write_intent || mutating {
                            complain("cli:output-syscall-on-input-fault", format!("the input was at fault but a syscall with write intent names the output path: {}", line));
                            break;
                        }
                    }
                }
            }
        }
    }
    if strace_seen {
        rep.count("runs_observed_with_strace");
    }
    for (sig, what) in complaints {
        let mut c = case.to_json();
        if let Some(o) = c.as_object_mut() {
            o.insert("argv".into(), json!(args));
        }
        rep.violation(
            &sig,
            format!(
                "{}\nargv: {:?}\nexit: {:?}\nstdout: {:?}\nstderr: {:?}",
                what,
                args,
                code,
                String::from_utf8_lossy(&stdout[..stdout.len().min(600)]),
                String::from_utf8_lossy(&stderr[..stderr.len().min(600)])
            ),
            c,
        );
    }
    if rep.samples.len() < 3 && rep.evaluations % 17 == 4 {
        rep.sample(json!({"argv": args, "input_kind": format!("{:?}", case.input_kind), "output": format!("{:?}", case.output), "exit": code}));
    }
    let _ = std::fs::remove_dir_all(&dir);
}

pub fn run_c12(thorough: bool, seed: u64, shards: usize) -> (Report, String) {
    let bin = match build_binary() {
        Ok(b) => b,
        Err(e) => {
            let mut r = Report::new();
            r.inconclusive(&e);
            r.notes.push(e);
            return (r, "binary could not be built".into());
        }
    };
    let have_strace = Command::new("strace").arg("-V").stdout(Stdio::null()).stderr(Stdio::null()).status().map(|s| s.success()).unwrap_or(false);
    let n: u64 = if thorough { 48_000 } else { 4_800 };
    let work = crate::report::out_dir().join("work").join(format!("c12-{}", std::process::id()));
    let _ = std::fs::create_dir_all(&work);
    let mut rep = crate::report::sharded(shards, |shard| {
        let mut rep = Report::new();
        let per = n / shards as u64;
        for k in 0..per {
            let idx = shard as u64 * per + k;
            let case = gen_cli_case(seed, idx, have_strace && k % 3 == 0);
            check_cli(&bin, &work, &case, idx, &mut rep);
        }
        rep
    });
    if !have_strace {
        rep.notes.push("strace not available: file effects observed by snapshots only".into());
    }
    let _ = std::fs::remove_dir_all(&work);
    let rule = format!(
        "{} runs of the real binary (built from /repo's working tree) in fresh directories: inputs valid (pools of C01/C04) / malformed (C08 classes, fault confirmed) / not UTF-8 / empty / missing / a directory x parser absent|-p|--parser|--parser= x derive absent|-d|--derive|--derive= with plain, empty, unicode, quoted values x sort absent|-s|--sort|--sort= x output stdout / new file / existing longer file / path under a missing directory / path that is a directory / path under a regular file x three argument orders; expected payload computed in-process through the library; output path snapshotted before/after (existence, inode, mtime, bytes); every third run under strace -f -e trace=%file,write. Distinct: the full case tuple.",
        n
    );
    (rep, rule)
}

pub fn replay(case: &Value, rep: &mut Report) -> Result<(), String> {
    let c = CliCase::from_json(case).ok_or("cannot decode cli case")?;
    let bin = build_binary()?;
    let work = crate::report::out_dir().join("work").join(format!("c12-replay-{}", std::process::id()));
    let _ = std::fs::create_dir_all(&work);
    check_cli(&bin, &work, &c, 0, rep);
    let _ = std::fs::remove_dir_all(&work);
    Ok(())
}
