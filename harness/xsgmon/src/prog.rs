//! C02 / C13: the generated program is the object checked. Rendered source is written verbatim
//! into modules of a scratch crate, compiled by rustc, and executed against its own source
//! documents; the deserialized values (re-serialized as JSON through the derived Serialize) are
//! compared with the document ASTs.

use std::collections::{BTreeMap, HashSet};
use std::path::{Path, PathBuf};
use std::process::{Command, Stdio};
use std::time::{Duration, Instant};

use serde_json::{json, Value};
use xml_schema_generator::Options;

use crate::extract;
use crate::gen::{self, fnv64, Doc, Elem, Pool, Profile, ReaderKind, Rng, Surface};
use crate::hist::{self, guarded, HistoryCase};
use crate::model::{self, attr_bound, child_bound};
use crate::real::{self, Cfg};
use crate::report::{Finding, Report, VERIF};

#[derive(Clone, Copy, PartialEq, Debug)]
pub enum Preset {
    QuickXml,
    SerdeXmlRs,
}

impl Preset {
    fn property(&self) -> &'static str {
        match self {
            Preset::QuickXml => "C02",
            Preset::SerdeXmlRs => "C13",
        }
    }
    fn options(&self) -> Options {
        match self {
            Preset::QuickXml => Options::quick_xml_de(),
            Preset::SerdeXmlRs => Options::serde_xml_rs(),
        }
    }
    fn attr_prefix(&self) -> String {
        self.options().attribute_prefix
    }
    fn text_key(&self) -> String {
        self.options().text_identifier
    }
}

fn profile(preset: Preset, r: &mut Rng) -> Profile {
    let base = Profile {
        data_oriented: true,
        unique_values: true,
        max_depth: 4,
        max_children: 5,
        n_docs: (1, 4),
        n_elem_names: (2, 6),
        n_attr_names: (0, 4),
        p_text: 7,
        p_cdata: 2,
        p_misc: 1,
        p_ws: 4,
        ..Profile::general()
    };
    match preset {
        Preset::QuickXml => Profile {
            pool: match r.below(4) {
                0 => Pool::Plain,
                1 => Pool::Mixed,
                _ => Pool::Adversarial,
            },
            ..base
        },
        Preset::SerdeXmlRs => Profile {
            pool: if r.chance(1, 3) { Pool::Plain } else { Pool::NoNamespace },
            adjacent_repeats: true,
            attrs_disjoint_children: true,
            calm_text: true,
            ..base
        },
    }
}

pub struct ProgCase {
    pub id: usize,
    pub case: HistoryCase,
    pub texts: Vec<String>,
    pub rendered: String,
    pub root_struct: String,
    pub witness_of: Option<String>,
}

fn precondition_ok(preset: Preset, docs: &[Doc]) -> bool {
    let m = model::infer(docs);
    if !model::bound_names_unique(&m) {
        return false;
    }
    // no element occurrence mixes non-whitespace text with child elements
    fn mixed(e: &Elem) -> bool {
        (e.has_significant_text() && e.child_elems().next().is_some()) || e.child_elems().any(mixed)
    }
    if docs.iter().any(|d| mixed(&d.root)) {
        return false;
    }
    if preset == Preset::SerdeXmlRs {
        fn bad(e: &Elem) -> bool {
            if e.name.contains(':') || e.attrs.iter().any(|(k, _)| k.contains(':') || k.starts_with("xmlns")) {
                return true;
            }
            // attribute names distinct from child names
            if e.attrs.iter().any(|(k, _)| e.child_elems().any(|c| c.name == *k)) {
                return true;
            }
            // repeated children adjacent
            let names: Vec<&str> = e.child_elems().map(|c| c.name.as_str()).collect();
            for (i, n) in names.iter().enumerate() {
                if i > 0 && names[i - 1] != *n && names[..i].contains(n) {
                    return true;
                }
            }
            e.child_elems().any(bad)
        }
        if docs.iter().any(|d| bad(&d.root)) {
            return false;
        }
        // attribute names of a *position* distinct from its child names (the schema merges occurrences)
        fn clash(n: &model::SNode) -> bool {
            n.attrs.iter().any(|a| n.children.iter().any(|c| c.name == a.name)) || n.children.iter().any(|c| clash(&c.node))
        }
        if clash(&m) {
            return false;
        }
    }
    true
}

fn make_case(preset: Preset, id: usize, case: HistoryCase, witness_of: Option<String>, rep: &mut Report) -> Option<ProgCase> {
    let texts = case.texts();
    let run = || {
        if case.render_between {
            real::run_history_rendering_between(&texts, &[ReaderKind::Str], Cfg::default(), false)
        } else {
            real::run_history(&texts, &[ReaderKind::Str], Cfg::default())
        }
    };
    if case.render_between && texts.len() > 1 {
        rep.count("programs whose tree was rendered after every step before the next extension");
    }
    // the same documents through a reader that reports an io::Error at seeded offsets: the source that
    // would be compiled must be the fault-free one, or there must be none (fault.rs)
    if id % 8 == 0 && texts.iter().map(|t| t.len()).sum::<usize>() <= 6000 {
        let mut fr = Rng::new(gen::fnv64(texts.concat().as_bytes()) ^ 0xFA17);
        crate::fault::sweep(&texts, &mut fr, 8, rep, &case.origin);
    }
    let tree = match guarded(run) {
        Ok(Ok(t)) => t,
        Ok(Err((i, e))) => {
            rep.violation("run-failed", format!("document {} rejected: {}", i + 1, e), case.to_json());
            return None;
        }
        Err(p) => {
            rep.violation("panic", p, case.to_json());
            return None;
        }
    };
    let rendered = match guarded(|| tree.to_serde_struct(&preset.options())) {
        Ok(s) => s,
        Err(p) => {
            rep.violation("panic", p, case.to_json());
            return None;
        }
    };
    let root_struct = rendered
        .lines()
        .find_map(|l| l.strip_prefix("pub struct ").and_then(|r| r.strip_suffix(" {")))
        .unwrap_or("")
        .to_string();
    Some(ProgCase {
        id,
        case,
        texts,
        rendered,
        root_struct,
        witness_of,
    })
}

pub fn gen_case(preset: Preset, seed: u64, index: u64) -> Option<HistoryCase> {
    let mut r = Rng::derive(seed, preset.property(), index);
    for _attempt in 0..20 {
        let p = profile(preset, &mut r);
        let docs = gen::random_history(&mut r, &p, &index.to_string());
        if !precondition_ok(preset, &docs) {
            continue;
        }
        let surfaces: Vec<Surface> = docs
            .iter()
            .map(|_| {
                if preset == Preset::SerdeXmlRs {
                    // xml-rs is a stricter parser: keep to plain serialization, both empty spellings
                    Surface { seed: r.next(), empty_style: 2, fancy: false, lead: 0 }
                } else {
                    Surface::seeded(r.next())
                }
            })
            .collect();
        let mut docs = docs;
        if preset == Preset::SerdeXmlRs {
            for d in docs.iter_mut() {
                d.doctype = 0;
            }
        }
        return Some(HistoryCase {
            origin: format!("prog:{}:{}:{}", preset.property(), seed, index),
            docs,
            surfaces,
            kinds: vec![ReaderKind::Str],
            raw_texts: None,
            across_threads: false,
            failed_parse_first: false,
            render_between: index % 3 == 1,
        });
    }
    None
}

/// data-oriented documents that cross depth / width / count thresholds
pub fn threshold_programs() -> Vec<HistoryCase> {
    use gen::Item;
    let mut out = Vec::new();
    let mut n = 0usize;
    let mut val = || {
        n += 1;
        format!("tv{}", n)
    };
    let mut text_leaf = |name: &str, val: &mut dyn FnMut() -> String| {
        let mut e = Elem::new(name);
        e.items.push(Item::Text(val()));
        e
    };
    // deep chains: every level is a struct (it carries an attribute), text at the bottom
    for (label, depth, names) in [
        ("same-name", 9usize, vec!["s"]),
        ("same-name", 12, vec!["s"]),
        ("alternating", 10, vec!["ul", "li"]),
        ("alternating", 13, vec!["section", "item"]),
        ("three-names", 11, vec!["a", "b", "c"]),
    ] {
        let mut cur = text_leaf("t", &mut val);
        for d in (0..depth).rev() {
            let mut e = Elem::new(names[d % names.len()]);
            e.attrs.push(("id".into(), val()));
            e.items.push(Item::Elem(cur));
            cur = e;
        }
        out.push(HistoryCase::plain(&format!("threshold-program:deep-{}-{}", label, depth), vec![Doc::plain(cur)]));
    }
    // very deep chains of distinct names (each level a struct): 66 and 90 levels
    for depth in [66usize, 90] {
        let mut cur = text_leaf("t", &mut val);
        let mut bottom = Elem::new(&format!("n{}", depth));
        bottom.attrs.push(("id".into(), val()));
        bottom.items.push(Item::Elem(cur));
        cur = bottom;
        for d in (1..depth).rev() {
            let mut e = Elem::new(&format!("n{}", d));
            if d % 7 == 0 {
                e.attrs.push(("id".into(), val()));
            }
            e.items.push(Item::Elem(cur));
            cur = e;
        }
        out.push(HistoryCase::plain(&format!("threshold-program:deep-distinct-{}", depth), vec![Doc::plain(cur)]));
    }
    // two deep branches that differ only near the top
    {
        let mut branch = |top: &str, val: &mut dyn FnMut() -> String| {
            let mut cur = text_leaf("t", val);
            for _ in 0..9 {
                let mut e = Elem::new("s");
                e.attrs.push(("id".into(), val()));
                e.items.push(Item::Elem(cur));
                cur = e;
            }
            let mut t = Elem::new(top);
            t.items.push(Item::Elem(cur));
            t
        };
        let mut r = Elem::new("r");
        let l = branch("left", &mut val);
        let rr = branch("right", &mut val);
        r.items.push(Item::Elem(l));
        r.items.push(Item::Elem(rr));
        out.push(HistoryCase::plain("threshold-program:two-deep-branches", vec![Doc::plain(r)]));
    }
    // wide: M distinct text children, a late one repeats (adjacent) in the same / a later document
    for m in [64usize, 65, 66, 70, 130] {
        let mut a = Elem::new("wide");
        for i in 0..m {
            let l = text_leaf(&format!("c{}", i), &mut val);
            a.items.push(Item::Elem(l));
        }
        let mut b = a.clone();
        let l = text_leaf(&format!("c{}", m - 1), &mut val);
        b.items.push(Item::Elem(l));
        out.push(HistoryCase::plain(&format!("threshold-program:wide-{}-late-repeat", m), vec![Doc::plain(b.clone())]));
        out.push(HistoryCase::plain(&format!("threshold-program:wide-{}-late-repeat-later", m), vec![Doc::plain(a), Doc::plain(b)]));
    }
    // every width 3..=40: the LAST distinct child occurs exactly twice (adjacent), nothing else repeats
    for m in 3usize..=40 {
        let mut a = Elem::new("rec");
        for i in 0..m {
            let l = text_leaf(&format!("f{}", i), &mut val);
            a.items.push(Item::Elem(l));
        }
        let l = text_leaf(&format!("f{}", m - 1), &mut val);
        a.items.push(Item::Elem(l));
        out.push(HistoryCase::plain(&format!("threshold-program:width-{}-last-twice", m), vec![Doc::plain(a)]));
    }
    // sparse records: a wide record followed by one that lacks K of its columns — K children (and K
    // attributes) become optional in ONE step, inside one document and across an extension
    for (m, k) in [(8usize, 1usize), (8, 5), (9, 6), (9, 7), (10, 8), (12, 9), (24, 16), (40, 33), (70, 64), (70, 65)] {
        let mut row = |cols: &dyn Fn(usize) -> bool, val: &mut dyn FnMut() -> String| {
            let mut e = Elem::new("row");
            for i in 0..m {
                if cols(i) {
                    e.attrs.push((format!("a{}", i), val()));
                }
            }
            for i in 0..m {
                if cols(i) {
                    let mut l = Elem::new(&format!("col{}", i));
                    l.items.push(Item::Text(val()));
                    e.items.push(Item::Elem(l));
                }
            }
            e
        };
        // the sparse record keeps the first m-k columns / a scattered subset
        for (shape, keep) in [("tail-missing", Box::new(move |i: usize| i < m - k) as Box<dyn Fn(usize) -> bool>), ("scattered", Box::new(move |i: usize| (i * 7 + 3) % m >= k))] {
            let full = row(&|_| true, &mut val);
            let sparse = row(&*keep, &mut val);
            let mut t = Elem::new("table");
            t.items.push(Item::Elem(full.clone()));
            t.items.push(Item::Elem(sparse.clone()));
            out.push(HistoryCase::plain(&format!("threshold-program:sparse-{}-of-{}-{}-one-doc", k, m, shape), vec![Doc::plain(t)]));
            let mut t1 = Elem::new("table");
            t1.items.push(Item::Elem(full));
            let mut t2 = Elem::new("table");
            t2.items.push(Item::Elem(sparse));
            out.push(HistoryCase::plain(&format!("threshold-program:sparse-{}-of-{}-{}-later-doc", k, m, shape), vec![Doc::plain(t1), Doc::plain(t2)]));
        }
    }
    // counts: 256 / 257 same-named siblings after one; a parent occurring 256 times
    for k in [255usize, 256, 257] {
        let mut small = Elem::new("r");
        let l = text_leaf("item", &mut val);
        small.items.push(Item::Elem(l));
        let mut big = Elem::new("r");
        for _ in 0..k {
            let l = text_leaf("item", &mut val);
            big.items.push(Item::Elem(l));
        }
        out.push(HistoryCase::plain(&format!("threshold-program:siblings-{}", k), vec![Doc::plain(small), Doc::plain(big)]));
        let mut r = Elem::new("r");
        for _ in 0..k {
            let mut p = Elem::new("p");
            p.attrs.push(("id".into(), val()));
            let l = text_leaf("c", &mut val);
            p.items.push(Item::Elem(l));
            r.items.push(Item::Elem(p));
        }
        let mut again = Elem::new("r");
        let mut p = Elem::new("p");
        p.attrs.push(("id".into(), val()));
        let l = text_leaf("c", &mut val);
        p.items.push(Item::Elem(l));
        again.items.push(Item::Elem(p));
        out.push(HistoryCase::plain(&format!("threshold-program:occurrences-{}", k), vec![Doc::plain(r), Doc::plain(again)]));
    }
    // long values with a multi-byte character straddling a power-of-two offset
    for b in [64usize, 256, 1024] {
        let long = format!("{}é{}", "x".repeat(b - 1), val());
        let mut r = Elem::new("r");
        r.attrs.push(("k".into(), long.clone()));
        let mut t = Elem::new("t");
        t.items.push(Item::Text(long.clone()));
        let mut u = Elem::new("u");
        u.attrs.push(("a".into(), val()));
        u.items.push(Item::CData(long));
        r.items.push(Item::Elem(t));
        r.items.push(Item::Elem(u));
        out.push(HistoryCase::plain(&format!("threshold-program:long-values-{}", b), vec![Doc::plain(r)]));
    }
    out
}

// ---------------------------------------------------------------------------------------
// writing the crate
// ---------------------------------------------------------------------------------------

fn with_deny(rendered: &str) -> String {
    let mut out = String::new();
    for l in rendered.split_inclusive('\n') {
        out.push_str(l);
        if l.starts_with("#[derive(") {
            out.push_str("#[serde(deny_unknown_fields)]\n");
        }
    }
    out
}

fn case_module(preset: Preset, c: &ProgCase) -> String {
    let mut s = String::new();
    s.push_str("#![allow(warnings)]\n");
    s.push_str("pub mod plain {\n");
    s.push_str(&c.rendered);
    s.push_str("}\n");
    if preset == Preset::QuickXml {
        s.push_str("pub mod deny {\n");
        s.push_str(&with_deny(&c.rendered));
        s.push_str("}\n");
    }
    s.push_str("pub const DOCS: &[&str] = &[\n");
    for t in &c.texts {
        s.push_str(&format!("    {:?},\n", t));
    }
    s.push_str("];\n");
    s.push_str("pub fn run() {\n");
    let de = match preset {
        Preset::QuickXml => "crate::de_qx",
        Preset::SerdeXmlRs => "crate::de_sxr",
    };
    s.push_str(&format!(
        "    for (i, d) in DOCS.iter().enumerate() {{ {}::<plain::{}>({}, \"plain\", i, d); }}\n",
        de, c.root_struct, c.id
    ));
    if preset == Preset::QuickXml {
        s.push_str(&format!(
            "    for (i, d) in DOCS.iter().enumerate() {{ {}::<deny::{}>({}, \"deny\", i, d); }}\n",
            de, c.root_struct, c.id
        ));
    }
    s.push_str("}\n");
    s
}

const BIN_PRELUDE: &str = r#"#![allow(warnings)]
#[macro_use]
extern crate serde;

fn report<T: serde::Serialize, E: std::fmt::Display>(case: usize, variant: &str, i: usize, r: Result<Result<T, E>, Box<dyn std::any::Any + Send>>) {
    match r {
        Ok(Ok(v)) => match serde_json::to_string(&v) {
            Ok(j) => println!("RESULT\t{}\t{}\t{}\tOK\t{}", case, variant, i, j),
            Err(e) => println!("RESULT\t{}\t{}\t{}\tSERERR\t{:?}", case, variant, i, e.to_string()),
        },
        Ok(Err(e)) => println!("RESULT\t{}\t{}\t{}\tERR\t{:?}", case, variant, i, e.to_string()),
        Err(_) => println!("RESULT\t{}\t{}\t{}\tPANIC\t\"deserializer panicked\"", case, variant, i),
    }
}

pub fn de_qx<T: serde::de::DeserializeOwned + serde::Serialize>(case: usize, variant: &str, i: usize, doc: &str) {
    let r = std::panic::catch_unwind(|| quick_xml::de::from_str::<T>(doc));
    report(case, variant, i, r);
}

pub fn de_sxr<T: serde::de::DeserializeOwned + serde::Serialize>(case: usize, variant: &str, i: usize, doc: &str) {
    let r = std::panic::catch_unwind(|| serde_xml_rs::from_str::<T>(doc));
    report(case, variant, i, r);
}
"#;

fn write_crate(dir: &Path, preset: Preset, bins: &[Vec<&ProgCase>]) -> std::io::Result<()> {
    let tpl = Path::new(VERIF).join("harness").join("progtpl");
    std::fs::create_dir_all(dir.join("src").join("bin"))?;
    std::fs::create_dir_all(dir.join("src").join("cases"))?;
    std::fs::copy(tpl.join("Cargo.toml"), dir.join("Cargo.toml"))?;
    std::fs::copy(tpl.join("Cargo.lock"), dir.join("Cargo.lock"))?;
    std::fs::write(dir.join("src").join("main.rs"), "fn main() {}\n")?;
    for (b, cases) in bins.iter().enumerate() {
        let mut s = String::from(BIN_PRELUDE);
        for c in cases {
            s.push_str(&format!("#[path = \"../cases/case_{}.rs\"]\nmod case_{};\n", c.id, c.id));
            std::fs::write(dir.join("src").join("cases").join(format!("case_{}.rs", c.id)), case_module(preset, c))?;
        }
        s.push_str("fn main() {\n    std::panic::set_hook(Box::new(|_| {}));\n");
        for c in cases {
            s.push_str(&format!("    case_{}::run();\n", c.id));
        }
        s.push_str("}\n");
        std::fs::write(dir.join("src").join("bin").join(format!("shard_{}.rs", b)), s)?;
    }
    Ok(())
}

struct BuildOutcome {
    ok: bool,
    /// case id -> (rustc code, first message)
    errors: BTreeMap<usize, (String, String)>,
    unattributed: Vec<String>,
    timed_out: bool,
}

fn cargo_build(dir: &Path) -> BuildOutcome {
    let target = crate::report::out_dir().join("target").join("gen");
    let mut child = match Command::new("cargo")
        .args(["build", "--offline", "--bins", "--message-format=json", "--keep-going"])
        .current_dir(dir)
        .env("CARGO_TARGET_DIR", &target)
        .env("CARGO_NET_OFFLINE", "true")
        .env("RUSTFLAGS", "-Awarnings")
        .stdout(Stdio::piped())
        .stderr(Stdio::from(std::fs::File::create(dir.join("cargo-stderr.log")).expect("stderr log")))
        .spawn()
    {
        Ok(c) => c,
        Err(e) => {
            return BuildOutcome {
                ok: false,
                errors: BTreeMap::new(),
                unattributed: vec![format!("cannot start cargo: {}", e)],
                timed_out: false,
            }
        }
    };
    // read stdout on a thread, watchdog on this one
    let stdout = child.stdout.take().unwrap();
    let reader = std::thread::spawn(move || {
        use std::io::Read;
        let mut s = String::new();
        let mut so = stdout;
        let _ = so.read_to_string(&mut s);
        s
    });
    let started = Instant::now();
    let mut timed_out = false;
    let status = loop {
        match child.try_wait() {
            Ok(Some(st)) => break Some(st),
            Ok(None) => {
                if started.elapsed() > Duration::from_secs(1800) {
                    let _ = child.kill();
                    timed_out = true;
                    break None;
                }
                std::thread::sleep(Duration::from_millis(200));
            }
            Err(_) => break None,
        }
    };
    let out = reader.join().unwrap_or_default();
    let mut errors: BTreeMap<usize, (String, String)> = BTreeMap::new();
    let mut unattributed = Vec::new();
    for line in out.lines() {
        let v: Value = match serde_json::from_str(line) {
            Ok(v) => v,
            Err(_) => continue,
        };
        if v["reason"] != "compiler-message" || v["message"]["level"] != "error" {
            continue;
        }
        let msg = v["message"]["message"].as_str().unwrap_or("").to_string();
        let code = v["message"]["code"]["code"].as_str().unwrap_or("no-code").to_string();
        let mut attributed = false;
        if let Some(spans) = v["message"]["spans"].as_array() {
            for sp in spans {
                let f = sp["file_name"].as_str().unwrap_or("");
                if let Some(p) = f.find("cases/case_") {
                    let num: String = f[p + "cases/case_".len()..].chars().take_while(|c| c.is_ascii_digit()).collect();
                    if let Ok(id) = num.parse::<usize>() {
                        errors.entry(id).or_insert((code.clone(), msg.clone()));
                        attributed = true;
                    }
                }
            }
        }
        if !attributed && !msg.starts_with("aborting due to") && !msg.starts_with("could not compile") {
            unattributed.push(format!("{}: {}", code, msg));
        }
    }
    let ok = status.map(|s| s.success()).unwrap_or(false);
    if !ok && errors.is_empty() {
        // keep the tail of cargo's own stderr: the failure is not a diagnostic about a generated program
        if let Ok(t) = std::fs::read_to_string(dir.join("cargo-stderr.log")) {
            let tail: Vec<&str> = t.lines().rev().take(12).collect();
            unattributed.push(format!("cargo stderr tail: {}", tail.into_iter().rev().collect::<Vec<_>>().join(" | ")));
        }
    }
    BuildOutcome {
        ok,
        errors,
        unattributed,
        timed_out,
    }
}

// ---------------------------------------------------------------------------------------
// judging the values
// ---------------------------------------------------------------------------------------

fn norm(s: &str) -> String {
    s.trim().to_string()
}

/// compare one element occurrence with the JSON of the value deserialized for it
fn compare_value(preset: Preset, e: &Elem, v: &Value, path: &str, losses: &mut Vec<(String, String)>) {
    let here = format!("{}/{}", path, e.name);
    let obj = match v {
        Value::Object(o) => o,
        Value::String(s) => {
            // String-typed position
            if norm(s) != norm(&e.text_value()) {
                losses.push(("value-lost:text-of-string-typed-child".into(), format!("{}: text {:?} but the value holds {:?}", here, e.text_value(), s)));
            }
            if !e.attrs.is_empty() {
                losses.push(("value-lost:attribute-of-string-typed-child".into(), format!("{}: attributes present but the position is typed String", here)));
            }
            return;
        }
        Value::Null => {
            losses.push(("value-lost:element-absent".into(), format!("{}: element present in the document but the value is None", here)));
            return;
        }
        other => {
            losses.push(("value-shape".into(), format!("{}: unexpected value {}", here, other)));
            return;
        }
    };
    for (k, val) in &e.attrs {
        let key = format!("{}{}", preset.attr_prefix(), attr_bound(k));
        match obj.get(&key) {
            Some(Value::String(s)) if s == val => {}
            Some(Value::String(s)) if norm(s) == norm(val) => {}
            other => losses.push(("value-lost:attribute".into(), format!("{}: attribute {}={:?} but field {:?} holds {:?}", here, k, val, key, other))),
        }
    }
    if e.has_significant_text() {
        let want = norm(&e.text_value());
        match obj.get(&preset.text_key()) {
            Some(Value::String(s)) if norm(s) == want => {}
            other => {
                let sig = if preset == Preset::SerdeXmlRs && matches!(other, Some(Value::Null)) {
                    "value-lost:sxr-text-in-$text-field"
                } else {
                    "value-lost:text"
                };
                losses.push((sig.into(), format!("{}: text {:?} but the $text field holds {:?}", here, want, other)));
            }
        }
    }
    let mut groups: Vec<(&str, Vec<&Elem>)> = Vec::new();
    for c in e.child_elems() {
        let b = child_bound(&c.name);
        match groups.iter_mut().find(|(n, _)| *n == b) {
            Some(g) => g.1.push(c),
            None => groups.push((b, vec![c])),
        }
    }
    for (b, elems) in groups {
        match obj.get(b) {
            Some(Value::Array(a)) => {
                if a.len() != elems.len() {
                    losses.push(("value-lost:vec-length".into(), format!("{}: {} occurrences of {} but the Vec holds {}", here, elems.len(), b, a.len())));
                } else {
                    for (c, x) in elems.iter().zip(a.iter()) {
                        compare_value(preset, c, x, &here, losses);
                    }
                }
            }
            Some(x) => {
                if elems.len() != 1 {
                    losses.push(("value-lost:repeated-child-in-single-field".into(), format!("{}: {} occurrences of {} but the field is single", here, elems.len(), b)));
                } else {
                    compare_value(preset, elems[0], x, &here, losses);
                }
            }
            None => losses.push(("value-lost:child".into(), format!("{}: child {} has no key in the value {:?}", here, b, obj.keys().collect::<Vec<_>>()))),
        }
    }
}

// ---------------------------------------------------------------------------------------
// driver
// ---------------------------------------------------------------------------------------

pub fn run(preset: Preset, thorough: bool, seed: u64, findings: &[Finding], only_case: Option<HistoryCase>) -> (Report, String, Value, Vec<(Finding, Vec<String>)>) {
    let property = preset.property();
    let mut rep = Report::new();
    let n_target: usize = if only_case.is_some() { 0 } else if thorough { 9600 } else { 768 };
    let n_bins = if thorough { 16 } else { 8 };
    let listed: HashSet<String> = findings.iter().map(|f| f.sig.clone()).collect();
    let c04_listed: HashSet<String> = crate::report::load_findings("C04").into_iter().map(|f| f.sig).collect();

    let mut cases: Vec<ProgCase> = Vec::new();
    // witnesses of listed findings are always compiled and run
    for f in findings {
        let p = if Path::new(&f.witness).is_absolute() { PathBuf::from(&f.witness) } else { Path::new(VERIF).join(&f.witness) };
        if let Some(hc) = std::fs::read_to_string(&p)
            .ok()
            .and_then(|t| serde_json::from_str::<Value>(&t).ok())
            .and_then(|v| v.get("case").and_then(HistoryCase::from_json))
        {
            let id = cases.len();
            if let Some(pc) = make_case(preset, id, hc, Some(f.sig.clone()), &mut rep) {
                cases.push(pc);
            }
        } else {
            rep.inconclusive(&format!("witness {} cannot be read", f.witness));
        }
    }
    let only_case_absent = only_case.is_none();
    if let Some(hc) = only_case {
        let id = cases.len();
        if let Some(pc) = make_case(preset, id, hc, None, &mut rep) {
            cases.push(pc);
        }
    }
    // deterministic threshold programs: depth, width and counts beyond what the random profile reaches
    if only_case_absent {
        for hc in threshold_programs() {
            let id = cases.len();
            if let Some(pc) = make_case(preset, id, hc, None, &mut rep) {
                cases.push(pc);
                rep.count("threshold_programs");
            }
        }
    }
    let mut index = 0u64;
    let mut generated = 0usize;
    while generated < n_target && index < (n_target as u64) * 20 {
        let idx = index;
        index += 1;
        let hc = match gen_case(preset, seed, idx) {
            Some(c) => c,
            None => {
                rep.skipped_precondition += 1;
                continue;
            }
        };
        let id = cases.len();
        let pc = match make_case(preset, id, hc, None, &mut rep) {
            Some(p) => p,
            None => continue,
        };
        // cases that trip only *listed* C04 classes are not compiled (one bad program forces a rebuild
        // of its whole batch); they are counted. Unlisted complaints are compiled: rustc is the judge.
        let m = model::infer(&pc.case.docs);
        let qx_render = if preset == Preset::QuickXml { pc.rendered.clone() } else { String::new() };
        let complaints = if preset == Preset::QuickXml {
            hist::c04_complaints(&qx_render, &m)
        } else {
            // classify on the quick-xml rendering of the same tree (struct names do not depend on the preset)
            match guarded(|| real::run_history(&pc.texts, &[ReaderKind::Str], Cfg::default())) {
                Ok(Ok(t)) => hist::c04_complaints(&t.to_serde_struct(&real::opts_qx(false)), &m),
                _ => vec![],
            }
        };
        if !complaints.is_empty() && complaints.iter().all(|c| c04_listed.contains(&c.sig)) {
            rep.count("skipped_known_c04_class");
            continue;
        }
        generated += 1;
        cases.push(pc);
    }
    // screening: many more histories (names recurring at several depths) go through the cheap in-process
    // well-formedness checker of C04; only those it objects to for an UNLISTED reason are added to the
    // batch, so that rustc — still the judge — sees them. (A struct-naming slip that needs a 1-in-500
    // shape would otherwise slip through a few hundred compiled programs.)
    if only_case_absent {
        let n_screen: u64 = if thorough { 400_000 } else { 40_000 };
        let mut added = 0;
        for k in 0..n_screen {
            if added >= 12 {
                break;
            }
            let mut r = Rng::derive(seed, "prog-screen", k);
            let p = Profile {
                pool: match r.below(8) {
                    0 | 1 => Pool::Adversarial,
                    2 => Pool::ReservedConcat,
                    _ => Pool::Plain,
                },
                max_depth: 5,
                max_children: 3,
                n_elem_names: (2, 4),
                n_attr_names: (1, 2),
                n_docs: (1, 3),
                p_text: 3,
                p_cdata: 0,
                p_misc: 0,
                p_ws: 2,
                data_oriented: true,
                unique_values: true,
                adjacent_repeats: preset == Preset::SerdeXmlRs,
                attrs_disjoint_children: preset == Preset::SerdeXmlRs,
                calm_text: true,
                ..Profile::general()
            };
            let p = if preset == Preset::SerdeXmlRs { Profile { pool: match p.pool { Pool::Adversarial => Pool::NoNamespace, Pool::ReservedConcat => Pool::ReservedConcat, _ => Pool::Plain }, ..p } } else { p };
            let docs = gen::random_history(&mut r, &p, &format!("s{}", k));
            if !precondition_ok(preset, &docs) {
                continue;
            }
            rep.count("histories_screened");
            let mut hc = HistoryCase::plain(&format!("prog-screen:{}:{}", seed, k), docs);
            // every other screened history renders the tree between its steps (make_case replays it so)
            hc.render_between = k % 2 == 1;
            let texts = hc.texts();
            let rb = hc.render_between;
            let tree = match guarded(|| if rb { real::run_history_rendering_between(&texts, &[ReaderKind::Str], Cfg::default(), false) } else { real::run_history(&texts, &[ReaderKind::Str], Cfg::default()) }) {
                Ok(Ok(t)) => t,
                _ => continue,
            };
            let qx = match guarded(|| tree.to_serde_struct(&real::opts_qx(false))) {
                Ok(s) => s,
                Err(_) => continue,
            };
            let m = model::infer(&hc.docs);
            let complaints = hist::c04_complaints(&qx, &m);
            if complaints.iter().any(|c| !c04_listed.contains(&c.sig)) {
                let id = cases.len();
                if let Some(pc) = make_case(preset, id, hc, None, &mut rep) {
                    cases.push(pc);
                    added += 1;
                    rep.count("screened_histories_sent_to_rustc");
                }
            }
        }
    }
    rep.add("programs_generated", cases.len() as u64);

    let work = crate::report::out_dir().join("work").join(format!("{}-{}", property.to_lowercase(), std::process::id()));
    let _ = std::fs::remove_dir_all(&work);
    let crate_dir = work.join("crate");

    // compile in batches (one rustc per bin; a bin of ~100 programs needs about 1 GB), dropping programs
    // that do not compile until the rest of the batch builds; each batch is run as soon as it is built
    let all_ids: Vec<usize> = (0..cases.len()).collect();
    let batch = n_bins * 96;
    let mut alive: Vec<usize> = Vec::new();
    let mut compile_failed: BTreeMap<usize, (String, String)> = BTreeMap::new();
    let mut results: BTreeMap<(usize, String, usize), (String, String)> = BTreeMap::new();
    let mut built = false;
    for chunk in all_ids.chunks(batch.max(1)) {
        let mut chunk_alive: Vec<usize> = chunk.to_vec();
        let mut chunk_built = false;
        for _round in 0..8 {
            let _ = std::fs::remove_dir_all(&crate_dir);
            let mut bins: Vec<Vec<&ProgCase>> = vec![Vec::new(); n_bins];
            for (k, id) in chunk_alive.iter().enumerate() {
                bins[k % n_bins].push(&cases[*id]);
            }
            bins.retain(|b| !b.is_empty());
            if bins.is_empty() {
                break;
            }
            if let Err(e) = write_crate(&crate_dir, preset, &bins) {
                rep.inconclusive(&format!("cannot write the program crate: {}", e));
                break;
            }
            let t0 = Instant::now();
            let outcome = cargo_build(&crate_dir);
            rep.add("cargo_build_rounds", 1);
            rep.add("cargo_build_seconds", t0.elapsed().as_secs());
            if outcome.timed_out {
                rep.inconclusive("cargo build watchdog fired");
                break;
            }
            if outcome.ok {
                chunk_built = true;
                break;
            }
            if outcome.errors.is_empty() {
                rep.inconclusive(&format!("cargo build failed without an error attributable to a generated program: {:?}", outcome.unattributed.iter().rev().take(1).map(|x| x.chars().take(600).collect::<String>()).collect::<Vec<_>>()));
                break;
            }
            for (id, e) in outcome.errors {
                compile_failed.insert(id, e);
                chunk_alive.retain(|x| *x != id);
            }
        }
        if chunk_built {
            built = true;
            let target = crate::report::out_dir().join("target").join("gen").join("debug");
            for b in 0..n_bins {
                let bin = target.join(format!("shard_{}", b));
                if !bin.exists() {
                    continue;
                }
                match Command::new(&bin).stdout(Stdio::piped()).stderr(Stdio::null()).output() {
                    Ok(o) => {
                        if !o.status.success() {
                            rep.inconclusive(&format!("generated program shard ended with {:?}", o.status));
                        }
                        for line in String::from_utf8_lossy(&o.stdout).lines() {
                            let parts: Vec<&str> = line.splitn(6, '\t').collect();
                            if parts.len() == 6 && parts[0] == "RESULT" {
                                if let (Ok(id), Ok(i)) = (parts[1].parse::<usize>(), parts[3].parse::<usize>()) {
                                    results.insert((id, parts[2].to_string(), i), (parts[4].to_string(), parts[5].to_string()));
                                }
                            }
                        }
                    }
                    Err(e) => rep.inconclusive(&format!("cannot run generated program: {}", e)),
                }
                let _ = std::fs::remove_file(&bin);
            }
            alive.extend(chunk_alive);
        }
    }

    let mut witness_sigs: BTreeMap<String, Vec<String>> = BTreeMap::new();
    let mut record = |rep: &mut Report, c: &ProgCase, sig: &str, detail: String| {
        if let Some(w) = &c.witness_of {
            witness_sigs.entry(w.clone()).or_default().push(sig.to_string());
        }
        rep.violation(sig, detail, c.case.to_json());
    };

    // compile errors
    for (id, (code, msg)) in &compile_failed {
        let c = &cases[*id];
        let m = model::infer(&c.case.docs);
        let explained = match guarded(|| real::run_history(&c.texts, &[ReaderKind::Str], Cfg::default())) {
            Ok(Ok(t)) => hist::c04_complaints(&t.to_serde_struct(&real::opts_qx(false)), &m),
            _ => vec![],
        };
        let sig = match explained.first() {
            Some(x) => format!("compile-error:{}", x.sig),
            None => format!("compile-error:unexplained:{}", code),
        };
        record(&mut rep, c, &sig, format!("rustc rejects the rendered source: [{}] {}\nsource:\n{}", code, msg, c.rendered));
    }

    // judge
    if built {
        let variants: &[&str] = if preset == Preset::QuickXml { &["plain", "deny"] } else { &["plain"] };
        for id in &alive {
            let c = &cases[*id];
            rep.evaluations += 1;
            rep.add("documents_deserialized", (c.texts.len() * variants.len()) as u64);
            let mut clean = true;
            'case: for variant in variants {
                for (i, d) in c.case.docs.iter().enumerate() {
                    match results.get(&(*id, variant.to_string(), i)) {
                        None => {
                            rep.inconclusive("no result line for a compiled program");
                            clean = false;
                            break 'case;
                        }
                        Some((status, payload)) => {
                            if status != "OK" {
                                let sig = match status.as_str() {
                                    "ERR" => format!("deserialize-error:{}", variant),
                                    "PANIC" => format!("deserializer-panic:{}", variant),
                                    _ => format!("serialize-error:{}", variant),
                                };
                                record(
                                    &mut rep,
                                    c,
                                    &sig,
                                    format!("document {} ({}): {} {}\ndocument: {}\nsource:\n{}", i + 1, variant, status, payload, c.texts[i], c.rendered),
                                );
                                clean = false;
                                break 'case;
                            }
                            let v: Value = match serde_json::from_str(payload) {
                                Ok(v) => v,
                                Err(_) => {
                                    rep.inconclusive("unparsable result payload");
                                    clean = false;
                                    break 'case;
                                }
                            };
                            let mut losses = Vec::new();
                            compare_value(preset, &d.root, &v, "", &mut losses);
                            rep.add("values_compared", d.root.count_elems() as u64);
                            if !losses.is_empty() {
                                // one violation per distinct signature per document; keep going so that a
                                // listed finding does not hide a different loss in a later document
                                let mut seen = HashSet::new();
                                for (s, dt) in &losses {
                                    if seen.insert(s.clone()) {
                                        record(
                                            &mut rep,
                                            c,
                                            s,
                                            format!("document {} ({}): {}\ndocument: {}\nvalue: {}\nsource:\n{}", i + 1, variant, dt, c.texts[i], payload, c.rendered),
                                        );
                                    }
                                }
                                clean = false;
                            }
                        }
                    }
                }
            }
            if clean {
                rep.count("programs_clean");
            }
            rep.nontrivial.insert(fnv64(c.rendered.as_bytes()));
            if rep.samples.len() < 2 && c.witness_of.is_none() && c.texts.len() > 1 {
                rep.sample(json!({"documents": c.texts, "rendered_source": c.rendered}));
            }
        }
    } else if !cases.is_empty() && rep.inconclusive == 0 {
        rep.inconclusive("program crate never built");
    }
    let _ = std::fs::remove_dir_all(&work);

    let programs = alive.len() + compile_failed.len();
    let ws: Vec<(Finding, Vec<String>)> = findings.iter().map(|f| (f.clone(), witness_sigs.get(&f.sig).cloned().unwrap_or_default())).collect();
    let _ = &listed;
    let rule = format!(
        "{} generated programs (each = the source rendered for one random data-oriented history of 1-4 documents with unique value tokens, {}), written verbatim into modules of a scratch crate, compiled by rustc (edition 2021, serde derive macros in scope) and executed: {} for every source document{}; the value, re-serialized to JSON through the derived Serialize, is compared with the document AST (every attribute value, every text content trimmed, i-th repeated child in the i-th Vec slot). Programs that trip only listed C04 duplicate-struct classes are counted and not compiled. Distinct: rendered source bytes.",
        programs,
        match preset {
            Preset::QuickXml => "plain/mixed/adversarial name pools, prefixes and xmlns attributes, any sibling order",
            Preset::SerdeXmlRs => "no prefixes/xmlns, attribute names disjoint from child names, repeated children adjacent, comments kept out of text runs",
        },
        match preset {
            Preset::QuickXml => "quick_xml::de::from_str::<Root>",
            Preset::SerdeXmlRs => "serde_xml_rs::from_str::<Root>",
        },
        if preset == Preset::QuickXml { ", once as rendered and once with #[serde(deny_unknown_fields)] on every struct" } else { "" }
    );
    let extra = json!({
        "programs": programs,
        "programs_that_failed_to_compile": compile_failed.len(),
        "toolchain": "rustc from the default toolchain, serde 1.0.229, quick-xml 0.37.5 (features serialize, overlapped-lists), serde-xml-rs 0.6.0 / xml-rs 0.8.29",
    });
    (rep, rule, extra, ws)
}
