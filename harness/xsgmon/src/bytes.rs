//! C07 (no panic / abort / hang on arbitrary bytes) and C08 (faithful errors): hostile byte
//! workloads, the independent flat-pass oracle, and the process-level monitors.

use std::io::{BufRead, BufReader, Write};
use std::path::Path;
use std::process::{Command, Stdio};
use std::sync::atomic::{AtomicU64, Ordering};
use std::sync::Arc;
use std::time::{Duration, Instant};

use quick_xml::events::Event;
use quick_xml::reader::Reader;
use serde::{Deserialize, Serialize};
use serde_json::{json, Value};
use xml_schema_generator::{Options, ParserError, SortBy};

use crate::gen::{self, ChunkyReader, Doc, Elem, Item, Pool, Profile, ReaderKind, Rng, Surface};
use crate::hist::guarded;
use crate::real::{self, Cfg};
use crate::report::Report;

pub fn hex(b: &[u8]) -> String {
    let mut s = String::with_capacity(b.len() * 2);
    for x in b {
        s.push_str(&format!("{:02x}", x));
    }
    s
}

pub fn unhex(s: &str) -> Vec<u8> {
    (0..s.len() / 2)
        .filter_map(|i| u8::from_str_radix(&s[2 * i..2 * i + 2], 16).ok())
        .collect()
}

#[derive(Clone, Debug, Serialize, Deserialize)]
pub struct ByteCase {
    pub origin: String,
    /// hex of a valid document parsed first; the hostile bytes are then supplied through extend_struct
    pub base_hex: Option<String>,
    pub bytes_hex: String,
    pub kind: ReaderKind,
    pub cfg: u8,
    /// run on a thread with this stack size (0 = current thread)
    pub stack_kib: usize,
}

impl ByteCase {
    pub fn bytes(&self) -> Vec<u8> {
        unhex(&self.bytes_hex)
    }
    pub fn to_json(&self) -> Value {
        let b = self.bytes();
        json!({
            "kind": "bytes",
            "origin": self.origin,
            "lossy_text": String::from_utf8_lossy(&b[..b.len().min(2000)]),
            "lossy_base": self.base_hex.as_ref().map(|h| String::from_utf8_lossy(&unhex(h)).to_string()),
            "reader_config": Cfg(self.cfg).describe(),
            "case": serde_json::to_value(self).unwrap(),
        })
    }
    pub fn from_json(v: &Value) -> Option<ByteCase> {
        serde_json::from_value(v.get("case")?.clone()).ok()
    }
}

// ---------------------------------------------------------------------------------------
// generation
// ---------------------------------------------------------------------------------------

const MARK: char = '\u{E000}';

fn valid_doc(r: &mut Rng) -> (Doc, String) {
    let p = match r.below(4) {
        0 => Profile::tiny(),
        1 => Profile::adversarial(),
        _ => Profile {
            pool: Pool::Mixed,
            p_misc: 3,
            p_cdata: 3,
            ..Profile::general()
        },
    };
    let p = if r.chance(1, 40) { Profile::wide() } else { p };
    let p = Profile { n_docs: (1, 1), ..p };
    let docs = gen::random_history(r, &p, "b");
    let mut d = docs.into_iter().next().unwrap();
    if r.chance(1, 16) {
        // names no XML document may have but quick-xml passes through: leading digits, bare separators,
        // empty prefixes / local parts, non-identifier characters
        const HOSTILE: &[&str] = &["1a", "2nd", "3d", "9", "-x", ".y", "a:", ":b", "x::y", "_", "__", "x²", "a'b", "Ⅳ", "٣", "a\u{301}", "\u{301}a", "xmlns:", ":", "xml:", "a.-.b", "0", "𝟏a", "É", "ß:ß"];
        let victim: String = {
            let mut names: Vec<String> = Vec::new();
            d.root.walk_mut(&mut |e: &mut Elem| {
                if !names.contains(&e.name) {
                    names.push(e.name.clone());
                }
            });
            r.pick(&names).clone()
        };
        let new_name = r.pick(HOSTILE).to_string();
        let attrs_too = r.chance(1, 2);
        d.root.walk_mut(&mut |e: &mut Elem| {
            if e.name == victim {
                e.name = new_name.clone();
            }
            if attrs_too {
                if let Some(a) = e.attrs.first_mut() {
                    a.0 = new_name.clone();
                }
            }
        });
    }
    let s = if r.chance(1, 2) { Surface::plain() } else { Surface::seeded_with_lead(r.next()) };
    let t = gen::write_doc(&d, &s);
    (d, t)
}

fn tag_spans(b: &[u8]) -> Vec<(usize, usize)> {
    let mut out = Vec::new();
    let mut i = 0;
    while i < b.len() {
        if b[i] == b'<' {
            if let Some(p) = b[i..].iter().position(|c| *c == b'>') {
                out.push((i, i + p + 1));
                i += p + 1;
                continue;
            }
        }
        i += 1;
    }
    out
}

/// structure-aware damage: operate on whole tags
fn mutate_tags(src: &[u8], r: &mut Rng) -> Vec<u8> {
    let mut v = src.to_vec();
    for _ in 0..1 + r.below(2) {
        let spans = tag_spans(&v);
        if spans.is_empty() {
            break;
        }
        let (a, b) = *r.pick(&spans);
        match r.below(7) {
            0 => {
                v.drain(a..b);
            }
            1 => {
                let t: Vec<u8> = v[a..b].to_vec();
                let at = r.pick(&spans).0;
                for (k, x) in t.into_iter().enumerate() {
                    v.insert(at + k, x);
                }
            }
            2 => {
                // swap with another tag
                let (c, d) = *r.pick(&spans);
                if b <= c {
                    let t1: Vec<u8> = v[a..b].to_vec();
                    let t2: Vec<u8> = v[c..d].to_vec();
                    let mut n = v[..a].to_vec();
                    n.extend(&t2);
                    n.extend(&v[b..c]);
                    n.extend(&t1);
                    n.extend(&v[d..]);
                    v = n;
                }
            }
            3 => {
                // break a quote inside the tag
                if let Some(p) = v[a..b].iter().position(|c| *c == b'"' || *c == b'\'') {
                    v.remove(a + p);
                }
            }
            4 => {
                // duplicate the first attribute
                let tag = v[a..b].to_vec();
                if let Some(sp) = tag.iter().position(|c| *c == b' ') {
                    if let Some(eq) = tag[sp..].iter().position(|c| *c == b'=') {
                        let key: Vec<u8> = tag[sp..sp + eq].to_vec();
                        let ins: Vec<u8> = [key.as_slice(), b"=\"dup\"".as_slice()].concat();
                        for (k, x) in ins.into_iter().enumerate() {
                            v.insert(a + sp + k, x);
                        }
                    }
                }
            }
            5 => {
                // turn a start tag into an end tag or vice versa
                if v[a + 1] == b'/' {
                    v.remove(a + 1);
                } else {
                    v.insert(a + 1, b'/');
                }
            }
            _ => {
                // rename: change the first name byte
                if b - a > 2 {
                    let p = if v[a + 1] == b'/' { a + 2 } else { a + 1 };
                    if p < b {
                        v[p] = *r.pick(b"zZ:_-9");
                    }
                }
            }
        }
    }
    v
}

/// put an invalid-UTF-8 byte at a chosen kind of place by marking the AST
fn place_invalid_utf8(d: &Doc, r: &mut Rng) -> (Vec<u8>, &'static str) {
    let mut d = d.clone();
    let place = r.below(8);
    let mut done = false;
    let label = ["element-name", "attribute-key", "attribute-value", "text", "cdata", "comment", "pi", "end-tag-only"][place];
    {
        let mut count = 0usize;
        d.root.walk_mut(&mut |_| count += 1);
        let target = r.below(count.max(1));
        let mut i = 0usize;
        d.root.walk_mut(&mut |e: &mut Elem| {
            if i == target && !done {
                match place {
                    0 | 7 => {
                        e.name.push(MARK);
                        done = true;
                    }
                    1 => {
                        if let Some(a) = e.attrs.first_mut() {
                            a.0.push(MARK);
                        } else {
                            e.attrs.push((format!("k{}", MARK), "v".into()));
                        }
                        done = true;
                    }
                    2 => {
                        if let Some(a) = e.attrs.first_mut() {
                            a.1.push(MARK);
                        } else {
                            e.attrs.push(("k".into(), format!("v{}", MARK)));
                        }
                        done = true;
                    }
                    3 => {
                        e.items.insert(0, Item::Text(format!("t{}", MARK)));
                        done = true;
                    }
                    4 => {
                        e.items.insert(0, Item::CData(format!("c{}", MARK)));
                        done = true;
                    }
                    5 => {
                        e.items.insert(0, Item::Comment(format!("c{}", MARK)));
                        done = true;
                    }
                    _ => {
                        e.items.insert(0, Item::PI(format!("p {}", MARK)));
                        done = true;
                    }
                }
            }
            i += 1;
        });
    }
    d.root.normalize();
    let text = gen::write_doc(&d, &Surface { seed: r.next(), empty_style: 1, fancy: false, lead: 0 });
    let bad: &[u8] = *r.pick(&[&b"\xFF"[..], b"\xC3", b"\xE2\x82", b"\xC0\xAF", b"\xED\xA0\x80"]);
    let mut out = Vec::new();
    let m = MARK.to_string();
    let mut first = true;
    let mut rest = text.as_str();
    while let Some(p) = rest.find(&m) {
        out.extend_from_slice(rest[..p].as_bytes());
        if place == 7 && first {
            // the start tag keeps a valid name: only the end tag is damaged
            first = false;
        } else {
            out.extend_from_slice(bad);
        }
        rest = &rest[p + m.len()..];
    }
    out.extend_from_slice(rest.as_bytes());
    (out, label)
}

fn error_class_on_purpose(d: &Doc, text: &str, r: &mut Rng) -> (Vec<u8>, String) {
    let b = text.as_bytes();
    let spans = tag_spans(b);
    let ends: Vec<(usize, usize)> = spans.iter().copied().filter(|(a, _)| b[a + 1] == b'/').collect();
    let starts: Vec<(usize, usize)> = spans
        .iter()
        .copied()
        .filter(|(a, _)| b[a + 1] != b'/' && b[a + 1] != b'!' && b[a + 1] != b'?')
        .collect();
    match r.below(12) {
        0 if !ends.is_empty() => {
            let (a, e) = *r.pick(&ends);
            let mut v = b[..a].to_vec();
            v.extend_from_slice(b"</mismatch>");
            v.extend_from_slice(&b[e..]);
            (v, "mismatched-end".into())
        }
        1 if !ends.is_empty() => {
            let (a, e) = *r.pick(&ends);
            let mut v = b[..a].to_vec();
            v.extend_from_slice(&b[e..]);
            (v, "unclosed".into())
        }
        2 if !spans.is_empty() => {
            let (a, _) = *r.pick(&spans);
            let mut v = b[..a].to_vec();
            v.extend_from_slice(b"</stray>");
            v.extend_from_slice(&b[a..]);
            (v, "stray-end".into())
        }
        3 if !starts.is_empty() => {
            let (a, e) = *r.pick(&starts);
            let close = if b[e - 2] == b'/' { e - 2 } else { e - 1 };
            let mut v = b[..close].to_vec();
            v.extend_from_slice(*r.pick(&[&b" dup=\"1\" dup=\"2\""[..], b" k=\"1\" k='2'", b" p:a=\"1\" p:a=\"1\""]));
            v.extend_from_slice(&b[close..]);
            let _ = a;
            (v, "duplicate-attribute".into())
        }
        4 if !starts.is_empty() => {
            let (_, e) = *r.pick(&starts);
            let close = if b[e - 2] == b'/' { e - 2 } else { e - 1 };
            let mut v = b[..close].to_vec();
            v.extend_from_slice(*r.pick(&[&b" k=v"[..], b" k", b" k=", b" =\"v\"", b" k=\"v", b" k='v\"", b" \"v\"", b" k=\"a\"j=\"b\""]));
            v.extend_from_slice(&b[close..]);
            (v, "malformed-attribute".into())
        }
        5 | 6 | 7 => {
            let (v, label) = place_invalid_utf8(d, r);
            (v, format!("invalid-utf8-in-{}", label))
        }
        8 => {
            let v: &[u8] = *r.pick(&[
                &b""[..],
                b" ",
                b"\n\n",
                b"<?xml version=\"1.0\"?>",
                b"<?xml version=\"1.0\"?>\n<!-- only a comment -->",
                b"<!DOCTYPE r>",
                b"plain text, no markup",
                b"<!-- c --><?pi?>",
                b"\xEF\xBB\xBF",
                b"&amp;",
                b"]]>",
            ]);
            (v.to_vec(), "no-element".into())
        }
        9 => {
            // valid document wrapped in prolog / epilog combinations
            let mut v = Vec::new();
            if r.chance(1, 3) {
                v.extend_from_slice(b"\xEF\xBB\xBF");
            }
            if r.chance(1, 2) {
                // declarations from tidy to sloppy: quick-xml reports none of them as an error
                let decl: &[u8] = *r.pick(&[
                    &b"<?xml version=\"1.0\" encoding=\"utf-8\" standalone=\"yes\"?>"[..],
                    b"<?xml version='1.0' encoding='ISO-8859-1'?>",
                    b"<?xml version=1.0?>",
                    b"<?xml version=\"1.0\" encoding=UTF-8?>",
                    b"<?xml version=\"1.0\" standalone?>",
                    b"<?xml?>",
                    b"<?xml foo?>",
                    b"<?xml version=\"1.0\" encoding=\"\xFF\"?>",
                    b"<?xml   version = \"1.1\"   ?>",
                ]);
                v.extend_from_slice(decl);
            }
            if r.chance(1, 2) {
                v.extend_from_slice(b"\n<!-- before -->\n");
            }
            if r.chance(1, 2) {
                v.extend_from_slice(b"<!DOCTYPE x [<!ELEMENT x (#PCDATA)><!ATTLIST x a CDATA #IMPLIED>]>");
            }
            if r.chance(1, 2) {
                v.extend_from_slice(b"<?target some data?>");
            }
            // strip an existing declaration: a second one is still only a Decl/PI event
            v.extend_from_slice(b);
            if r.chance(1, 2) {
                v.extend_from_slice(b"<!-- after -->");
            }
            if r.chance(1, 2) {
                v.extend_from_slice(b"<?after pi?>\n");
            }
            if r.chance(1, 4) {
                v.extend_from_slice(b"\n\n  ");
            }
            (v, "valid-wrapped".into())
        }
        10 => {
            // truncate at every kind of place
            let cut = r.below(b.len() + 1);
            (b[..cut].to_vec(), "truncated".into())
        }
        _ => (b.to_vec(), "valid".into()),
    }
}

pub fn gen_byte_case(seed: u64, label: &str, index: u64, default_config_only: bool) -> ByteCase {
    let mut r = Rng::derive(seed, label, index);
    let (doc, text) = valid_doc(&mut r);
    let (bytes, family): (Vec<u8>, String) = match r.below(16) {
        0..=3 => {
            let (v, l) = error_class_on_purpose(&doc, &text, &mut r);
            (v, format!("class:{}", l))
        }
        4..=6 => (mutate_tags(text.as_bytes(), &mut r), "tag-mutation".into()),
        7..=10 => (gen::mutate_bytes(text.as_bytes(), &mut r), "byte-mutation".into()),
        11 => {
            let a = gen::mutate_bytes(text.as_bytes(), &mut r);
            (mutate_tags(&a, &mut r), "tag+byte-mutation".into())
        }
        12 => (gen::random_xmlish_bytes(&mut r, 200), "raw-random".into()),
        13 => {
            // splice two documents
            let (_, t2) = valid_doc(&mut r);
            let cut1 = r.below(text.len() + 1);
            let cut2 = r.below(t2.len() + 1);
            let mut v = text.as_bytes()[..cut1].to_vec();
            v.extend_from_slice(&t2.as_bytes()[cut2..]);
            (v, "splice".into())
        }
        15 if r.chance(1, 30) => {
            // long text / CDATA nodes: multi-byte characters straddling power-of-two offsets, and (half of
            // them) an invalid byte at a late offset
            let b = *r.pick(&[64usize, 128, 256, 512, 1024, 2048, 4096, 8192]);
            let k = r.range(0, 4);
            let ch = *r.pick(&["é", "€", "😀", "x"]);
            let mut body: Vec<u8> = "y".repeat(b.saturating_sub(k)).into_bytes();
            body.extend_from_slice(ch.as_bytes());
            body.extend_from_slice(b"tail");
            if r.chance(1, 2) {
                let at = r.range(body.len() / 2, body.len());
                body.insert(at, *r.pick(&[0xFFu8, 0xC3, 0xE2]));
            }
            let cdata = r.chance(1, 3);
            let mut v: Vec<u8> = b"<r><t>first</t><t>".to_vec();
            if cdata {
                v.extend_from_slice(b"<![CDATA[");
            }
            v.extend_from_slice(&body);
            if cdata {
                v.extend_from_slice(b"]]>");
            }
            v.extend_from_slice(b"</t></r>");
            (v, "long-text".into())
        }
        14 if default_config_only => {
            // no depth bound in C08: deep ladders run on the shard thread's 64 MiB stack
            let d = *r.pick(&[50usize, 127, 128, 129, 130, 200, 255, 256, 257, 258, 300, 600]);
            if r.chance(19, 20) {
                (gen::mutate_bytes(text.as_bytes(), &mut r), "byte-mutation".into())
            } else {
                let names: &[&str] = if r.chance(1, 2) { &["a"] } else { &["a", "b", "c:d"] };
                let mut v = gen::ladder(names, d, &mut r, true);
                if r.chance(1, 2) {
                    // put content at the bottom: text or an element, so that the deepest level is not empty
                    let mid = v.len() / 2;
                    let ins: &[u8] = if r.chance(1, 2) { b"<leaf>x</leaf>" } else { b"text" };
                    // find the boundary between the last start tag and the first end tag
                    if let Some(p) = v.windows(2).position(|w| w == b"</") {
                        for (k, b) in ins.iter().enumerate() {
                            v.insert(p + k, *b);
                        }
                    }
                    let _ = mid;
                }
                (v, format!("deep-ladder-{}", d))
            }
        }
        14 if r.chance(19, 20) => (gen::mutate_bytes(text.as_bytes(), &mut r), "byte-mutation".into()),
        14 => {
            let d = *r.pick(&[5usize, 20, 50, 100, 127, 128, 129, 130, 150, 200]);
            let close = r.chance(3, 4);
            let names: &[&str] = if r.chance(1, 2) { &["a"] } else { &["a", "b", "c:d", "self", "a-b"] };
            (gen::ladder(names, d, &mut r, close), format!("ladder-{}", d))
        }
        15 if r.chance(1, 40) => {
            // wide / long documents up to ~64 KiB: many siblings, long names, long text
            let n = r.range(200, 2500);
            let mut s = String::from("<root>");
            let names = ["a", "b", "c", "item", "p:x"];
            for i in 0..n {
                let nm = *r.pick(&names);
                if i % 7 == 0 {
                    s.push_str(&format!("<{} k=\"{}\">text {}</{}>", nm, i, i, nm));
                } else {
                    s.push_str(&format!("<{}/>", nm));
                }
            }
            s.push_str("</root>");
            let mut v = s.into_bytes();
            v.truncate(65536);
            if r.chance(1, 2) {
                v = gen::mutate_bytes(&v, &mut r);
            }
            (v, "wide".into())
        }
        _ => (text.as_bytes().to_vec(), "valid".into()),
    };
    let base_hex = if r.chance(1, 3) {
        if r.chance(1, 2) {
            // the undamaged original: the hostile bytes then hit elements that already carry state
            Some(hex(text.as_bytes()))
        } else {
            let (_, t) = valid_doc(&mut r);
            Some(hex(t.as_bytes()))
        }
    } else {
        None
    };
    let kind = ReaderKind::random(&mut r);
    let cfg = if default_config_only { 0 } else if r.chance(1, 3) { 0 } else { r.below(128) as u8 };
    let stack_kib = if family.starts_with("ladder") { 2048 } else { 0 };
    ByteCase {
        origin: format!("{}:{}:{}:{}", family, seed, label, index),
        base_hex,
        bytes_hex: hex(&bytes),
        kind,
        cfg,
        stack_kib,
    }
}

// ---------------------------------------------------------------------------------------
// C08: the flat-pass oracle
// ---------------------------------------------------------------------------------------

#[derive(Clone, Debug, PartialEq)]
pub enum Fault {
    Reader { debug: String, positions: [u64; 2] },
    NameUtf8,
    Attr,
    KeyUtf8,
    TextUtf8,
}

#[derive(Clone, Debug)]
pub struct Flat {
    pub fault: Option<Fault>,
    pub elements: u64,
}

fn flat_pass<R: BufRead>(mut reader: Reader<R>) -> Flat {
    let mut buf = Vec::new();
    let mut elements = 0u64;
    loop {
        let ev = reader.read_event_into(&mut buf);
        match ev {
            Err(e) => {
                return Flat {
                    fault: Some(Fault::Reader {
                        debug: format!("{:?}", e),
                        positions: [reader.buffer_position(), reader.error_position()],
                    }),
                    elements,
                }
            }
            Ok(Event::Start(e)) | Ok(Event::Empty(e)) => {
                if std::str::from_utf8(e.name().as_ref()).is_err() {
                    return Flat { fault: Some(Fault::NameUtf8), elements };
                }
                for a in e.attributes() {
                    match a {
                        Err(_) => return Flat { fault: Some(Fault::Attr), elements },
                        Ok(a) => {
                            if std::str::from_utf8(a.key.as_ref()).is_err() {
                                return Flat { fault: Some(Fault::KeyUtf8), elements };
                            }
                        }
                    }
                }
                elements += 1;
            }
            Ok(Event::Text(t)) => {
                if std::str::from_utf8(&t).is_err() {
                    return Flat { fault: Some(Fault::TextUtf8), elements };
                }
            }
            Ok(Event::CData(t)) => {
                if std::str::from_utf8(&t).is_err() {
                    return Flat { fault: Some(Fault::TextUtf8), elements };
                }
            }
            Ok(Event::Eof) => return Flat { fault: None, elements },
            Ok(_) => {}
        }
        buf.clear();
    }
}

pub fn flat_oracle(bytes: &[u8], kind: ReaderKind) -> Flat {
    match kind {
        ReaderKind::Str | ReaderKind::Slice => flat_pass(Reader::from_reader(bytes)),
        ReaderKind::BufReader(cap) => flat_pass(Reader::from_reader(BufReader::with_capacity(cap.max(1), bytes))),
        ReaderKind::Chunky(seed, max) => flat_pass(Reader::from_reader(ChunkyReader::new(bytes, seed, max))),
    }
}

fn fault_class(f: &Option<Fault>, elements: u64, extend: bool) -> String {
    match f {
        None => {
            if elements == 0 {
                if extend {
                    "expect-ok:extend-without-element".into()
                } else {
                    "expect-err:no-element".into()
                }
            } else {
                "expect-ok".into()
            }
        }
        Some(Fault::Reader { debug, .. }) => {
            let head: String = debug.chars().take_while(|c| c.is_alphanumeric() || *c == '(').collect();
            format!("expect-err:reader:{}", head)
        }
        Some(Fault::NameUtf8) => "expect-err:name-not-utf8".into(),
        Some(Fault::Attr) => "expect-err:attribute".into(),
        Some(Fault::KeyUtf8) => "expect-err:key-not-utf8".into(),
        Some(Fault::TextUtf8) => "expect-err:text-not-utf8".into(),
    }
}

fn judge_c08(
    what: &str,
    result: &Result<xml_schema_generator::Element<String>, ParserError>,
    flat: &Flat,
    extend: bool,
) -> Option<(String, String)> {
    match (&flat.fault, result) {
        (None, Ok(_)) => {
            if flat.elements == 0 && !extend {
                Some(("ok-without-element".into(), format!("{}: input holds no element but the result is Ok", what)))
            } else {
                None
            }
        }
        (None, Err(e)) => {
            if flat.elements == 0 && !extend {
                None
            } else {
                Some((
                    "spurious-error".into(),
                    format!("{}: no syntax error, attribute fault or UTF-8 fault in the event stream ({} elements) but the result is Err({})", what, flat.elements, e),
                ))
            }
        }
        (Some(f), Ok(_)) => Some((
            "swallowed-error".into(),
            format!("{}: the event stream has the fault {:?} but the result is Ok", what, f),
        )),
        (Some(Fault::Reader { debug, positions }), Err(e)) => match e {
            ParserError::QuickXmlError(pos, inner) => {
                if format!("{:?}", inner) != *debug {
                    Some(("wrong-inner-error".into(), format!("{}: reader error {} but the result carries {:?}", what, debug, inner)))
                } else if !positions.contains(pos) {
                    Some((
                        "wrong-position".into(),
                        format!("{}: reader error {} at position {:?} (buffer/error position) but the result says {}", what, debug, positions, pos),
                    ))
                } else if !e.to_string().contains(&pos.to_string()) {
                    Some(("display-without-position".into(), format!("{}: Display {:?} does not show the position {}", what, e.to_string(), pos)))
                } else {
                    None
                }
            }
            other => Some((
                "syntax-error-not-carried".into(),
                format!("{}: reader error {} but the result is {:?} (not the variant carrying the reader's error and position)", what, debug, other),
            )),
        },
        (Some(_), Err(_)) => None,
    }
}

pub fn check_c08(case: &ByteCase, rep: &mut Report) {
    crate::report::journal_enter(|| case.to_json());
    rep.evaluations += 1;
    let bytes = case.bytes();
    let flat = flat_oracle(&bytes, case.kind);
    // initial parse
    let class = fault_class(&flat.fault, flat.elements, false);
    rep.count(&format!("verdict {}", class));
    rep.nontrivial.insert(gen::fnv64(&bytes));
    let r = guarded(|| real::parse_bytes(&bytes, case.kind, Cfg::default()));
    match r {
        Err(p) => {
            rep.violation("panic", format!("into_struct panicked: {}", p), case.to_json());
            return;
        }
        Ok(res) => {
            if let Some((sig, d)) = judge_c08("into_struct", &res, &flat, false) {
                rep.violation(&format!("verdict:{}", sig), d, case.to_json());
                return;
            }
        }
    }
    // extension onto a valid tree
    if let Some(b) = &case.base_hex {
        let base = unhex(b);
        if let Ok(Ok(root)) = guarded(|| real::parse_bytes(&base, ReaderKind::Slice, Cfg::default())) {
            rep.count("extensions_checked");
            rep.count(&format!("verdict(extend) {}", fault_class(&flat.fault, flat.elements, true)));
            match guarded(|| real::extend_bytes(&bytes, case.kind, Cfg::default(), root)) {
                Err(p) => rep.violation("panic", format!("extend_struct panicked: {}", p), case.to_json()),
                Ok(res) => {
                    if let Some((sig, d)) = judge_c08("extend_struct", &res, &flat, true) {
                        rep.violation(&format!("verdict:{}", sig), d, case.to_json());
                    }
                }
            }
        }
    }
    if rep.samples.len() < 3 && rep.evaluations % 11 == 5 {
        rep.sample(json!({"input_lossy": String::from_utf8_lossy(&bytes[..bytes.len().min(300)]), "expected": class, "reader": format!("{:?}", case.kind)}));
    }
}

pub fn run_c08(thorough: bool, seed: u64, shards: usize) -> (Report, String) {
    let n: u64 = if thorough { 48_000_000 } else { 1_600_000 };
    let rep = crate::report::sharded(shards, |shard| {
        let mut rep = Report::new();
        let per = n / shards as u64;
        for k in 0..per {
            let case = gen_byte_case(seed, "C08", shard as u64 * per + k, true);
            check_c08(&case, &mut rep);
            // an error of the underlying reader that is not a syntax error: io::Error injected into
            // well-formed histories (fault.rs)
            if k % 400 == 11 {
                let idx = shard as u64 * per + k;
                let h = crate::hist::random_case(seed, "C08-faults", idx, crate::hist::Mix::Schema);
                let texts = h.texts();
                if texts.iter().map(|t| t.len()).sum::<usize>() <= 6000 {
                    let mut fr = Rng::derive(seed, "C08-fault-offsets", idx);
                    crate::fault::sweep(&texts, &mut fr, 16, &mut rep, &h.origin);
                }
            }
        }
        rep
    });
    let rule = format!(
        "{} byte strings derived from generated valid documents: error classes produced on purpose (mismatched / unclosed / stray end tags, duplicated and malformed attributes, invalid UTF-8 placed in names, keys, values, text, CDATA, comments, PIs, inputs without any element, valid documents wrapped in prolog/epilog combinations, truncations), tag-level and byte-level mutations, splices, raw random bytes, nesting ladders; each through into_struct and (one third) extend_struct onto a valid tree, default reader configuration, reader kinds str/slice/BufReader(1..4096)/chunked. Expected verdict from an independent flat pass over a second reader of the same kind. Plus reader faults: one in 400 cases supplies a well-formed random history through a BufRead that reports an io::Error (WouldBlock, TimedOut, Other, UnexpectedEof, BrokenPipe, PermissionDenied, InvalidData once or for good; Interrupted once) at 16 byte offsets of one step; the call must return Err or an Ok tree rendering byte-identically to the fault-free run, and a fault that never clears before the root element ends must be Err. Distinct: hash of the input bytes.",
        n
    );
    (rep, rule)
}

// ---------------------------------------------------------------------------------------
// C07
// ---------------------------------------------------------------------------------------

fn hostile_options(r: &mut Rng) -> Options {
    let strs: &[&str] = &["", "@", "$text", "$value", "Debug", "Serialize, Deserialize", "a\"b", "x\ny", "\\", "{}", "{", "%s", "\u{0}", "ünï", "#[x]", ")]"];
    Options {
        text_identifier: r.pick(strs).to_string(),
        attribute_prefix: r.pick(strs).to_string(),
        derive: r.pick(strs).to_string(),
        sort: if r.chance(1, 2) { SortBy::XmlName } else { SortBy::Unsorted },
    }
}

fn c07_calls(case: &ByteCase, rep: &mut Report) {
    let bytes = case.bytes();
    let cfg = Cfg(case.cfg);
    let mut r = Rng::new(gen::fnv64(&bytes));
    let mut render_all = |tree: &xml_schema_generator::Element<String>, rep: &mut Report, what: &str| {
        for o in [
            Options::quick_xml_de(),
            Options::serde_xml_rs(),
            real::opts_qx(true),
            hostile_options(&mut r),
            hostile_options(&mut r),
        ] {
            match guarded(|| tree.to_serde_struct(&o)) {
                Ok(s) => {
                    rep.count("renderings");
                    std::hint::black_box(s.len());
                }
                Err(p) => rep.violation(
                    "panic:render",
                    format!("to_serde_struct panicked after {}: {}\noptions: derive={:?} prefix={:?} text={:?}", what, p, o.derive, o.attribute_prefix, o.text_identifier),
                    case.to_json(),
                ),
            }
        }
    };
    match guarded(|| real::parse_bytes(&bytes, case.kind, cfg)) {
        Err(p) => rep.violation("panic:parse", format!("into_struct panicked: {}", p), case.to_json()),
        Ok(Ok(tree)) => {
            rep.count("parse_ok");
            render_all(&tree, rep, "into_struct");
            // the SAME tree, already rendered, is extended and rendered again (state cached in the tree by
            // a rendering must not break a later one)
            if let Some(b) = &case.base_hex {
                let more = unhex(b);
                match guarded(|| real::extend_bytes(&more, ReaderKind::Slice, Cfg::default(), tree.clone())) {
                    Err(p) => rep.violation("panic:extend-after-render", format!("extend_struct panicked on a tree that had been rendered: {}", p), case.to_json()),
                    Ok(Ok(t2)) => {
                        rep.count("render_extend_render_sequences");
                        render_all(&t2, rep, "into_struct, to_serde_struct, extend_struct");
                    }
                    Ok(Err(_)) => {}
                }
            }
        }
        Ok(Err(e)) => {
            rep.count("parse_err");
            let d = guarded(|| e.to_string());
            if d.is_err() {
                rep.violation("panic:display", "Display of the error panicked".into(), case.to_json());
            }
        }
    }
    if let Some(b) = &case.base_hex {
        let base = unhex(b);
        if let Ok(Ok(root)) = guarded(|| real::parse_bytes(&base, ReaderKind::Slice, Cfg::default())) {
            match guarded(|| real::extend_bytes(&bytes, case.kind, cfg, root)) {
                Err(p) => rep.violation("panic:extend", format!("extend_struct panicked: {}", p), case.to_json()),
                Ok(Ok(tree)) => {
                    rep.count("extend_ok");
                    render_all(&tree, rep, "extend_struct");
                }
                Ok(Err(_)) => rep.count("extend_err"),
            }
        }
    }
    // the same bytes through a reader that reports an io::Error at a seeded offset (once or for good):
    // "any buffered reader" includes one that fails — the call must still return, Ok or Err
    let mut fr = Rng::new(gen::fnv64(&bytes) ^ 0x5EED_FA17);
    if fr.chance(1, 8) && case.stack_kib == 0 {
        for _ in 0..3 {
            let at = fr.below(bytes.len() + 1);
            let kind = crate::fault::KINDS[fr.below(crate::fault::KINDS.len())];
            let persistent = kind != std::io::ErrorKind::Interrupted && fr.chance(1, 2);
            let chunk = *fr.pick(&[1usize, 2, 3, 7, 64, 4096]);
            let res = guarded(|| {
                let mut rd = quick_xml::reader::Reader::from_reader(crate::fault::FaultyReader::new(&bytes, chunk, at, kind, persistent));
                cfg.apply(&mut rd);
                xml_schema_generator::into_struct(&mut rd)
            });
            rep.count("parses through a failing reader");
            match res {
                Err(p) if p.contains(crate::fault::RETRY_MARKER) => rep.violation(
                    "hang:unbounded-retry-of-a-failed-reader",
                    format!("into_struct asked a reader that fails for good ({:?} at byte {}) {} times without returning", kind, at, crate::fault::RETRY_LIMIT),
                    case.to_json(),
                ),
                Err(p) => rep.violation(
                    "panic:parse-with-reader-fault",
                    format!("into_struct panicked with {:?} (persistent={}) injected at byte {} chunk {}: {}", kind, persistent, at, chunk, p),
                    case.to_json(),
                ),
                Ok(Ok(tree)) => render_all(&tree, rep, "into_struct through a failing reader"),
                Ok(Err(_)) => {}
            }
        }
    }
}

pub fn check_c07(case: &ByteCase, rep: &mut Report) {
    rep.evaluations += 1;
    rep.nontrivial.insert(gen::fnv64(case.bytes_hex.as_bytes()) ^ case.cfg as u64);
    let mut parts = case.origin.split(':');
    let fam = match parts.next() {
        Some("class") => format!("class:{}", parts.next().unwrap_or("")),
        Some(f) if f.starts_with("ladder") => "ladder".to_string(),
        Some(f) => f.to_string(),
        None => String::new(),
    };
    rep.count(&format!("family {}", fam));
    if case.cfg != 0 {
        rep.count("non_default_reader_configs");
    }
    if case.stack_kib > 0 {
        // nesting ladders run on a thread with the stated stack (2 MiB = std's default for spawned threads)
        let mut sub = Report::new();
        let c = case.clone();
        let h = std::thread::Builder::new()
            .stack_size(case.stack_kib * 1024)
            .spawn(move || {
                let mut rep = Report::new();
                c07_calls(&c, &mut rep);
                rep
            })
            .expect("spawn");
        if let Ok(r) = h.join() {
            sub = r;
        }
        rep.count("cases_on_2MiB_stack");
        rep.merge(sub);
    } else {
        c07_calls(case, rep);
    }
    if rep.samples.len() < 3 && rep.evaluations % 13 == 7 {
        let b = case.bytes();
        rep.sample(json!({"input_lossy": String::from_utf8_lossy(&b[..b.len().min(300)]), "origin": case.origin, "reader": format!("{:?}", case.kind), "config": Cfg(case.cfg).describe()}));
    }
}

/// child process: runs cases [from, from+count) of the C07 stream, journals the current index,
/// watches for a call that does not return. Prints a JSON report on the last line.
pub fn c07_shard_main(seed: u64, from: u64, count: u64, journal: &str, single: bool) -> i32 {
    let progress = Arc::new(AtomicU64::new(0));
    let current = Arc::new(AtomicU64::new(from));
    let done = Arc::new(AtomicU64::new(0));
    {
        let progress = progress.clone();
        let current = current.clone();
        let done = done.clone();
        std::thread::spawn(move || {
            let mut last = u64::MAX;
            let mut stuck_since = Instant::now();
            loop {
                std::thread::sleep(Duration::from_millis(500));
                if done.load(Ordering::Relaxed) != 0 {
                    return; // all cases finished: writing the report is not a monitored call
                }
                let p = progress.load(Ordering::Relaxed);
                if p != last {
                    last = p;
                    stuck_since = Instant::now();
                } else if stuck_since.elapsed() > Duration::from_secs(20) {
                    println!("HANG index={}", current.load(Ordering::Relaxed));
                    std::process::exit(3);
                }
            }
        });
    }
    let mut jf = std::fs::OpenOptions::new().create(true).write(true).truncate(true).open(journal).ok();
    let mut rep = Report::new();
    for k in 0..count {
        let index = from + k;
        current.store(index, Ordering::Relaxed);
        if let Some(f) = jf.as_mut() {
            use std::io::Seek;
            let _ = f.seek(std::io::SeekFrom::Start(0));
            let _ = f.write_all(format!("{:020}", index).as_bytes());
        }
        let case = gen_byte_case(seed, "C07", index, false);
        check_c07(&case, &mut rep);
        progress.fetch_add(1, Ordering::Relaxed);
    }
    done.store(1, Ordering::Relaxed);
    // the hashes of the distinct inputs go to a binary side file (8 bytes each): the parent merges them
    let hashes_path = format!("{}.hashes", journal);
    {
        let mut bytes: Vec<u8> = Vec::with_capacity(rep.nontrivial.len() * 8);
        for h in rep.nontrivial.iter() {
            bytes.extend_from_slice(&h.to_le_bytes());
        }
        let _ = std::fs::write(&hashes_path, bytes);
    }
    let out = json!({
        "evaluations": rep.evaluations,
        "nontrivial_file": hashes_path,
        "counters": rep.counters,
        "samples": rep.samples,
        "violations": rep.violations.iter().map(|v| json!({"sig": v.sig, "detail": v.detail, "case": v.case, "n": rep.violation_counts.get(&v.sig)})).collect::<Vec<_>>(),
    });
    if single {
        println!("single case ran to completion, violations: {}", rep.violations.len());
    }
    println!("REPORT {}", out);
    0
}

thread_local! {
    /// hashes of distinct inputs reported by child shards (merged by sort + dedup at the end)
    static CHILD_HASHES: std::cell::RefCell<Vec<u64>> = const { std::cell::RefCell::new(Vec::new()) };
}

fn merge_child_report(line: &str, rep: &mut Report) {
    if let Ok(v) = serde_json::from_str::<Value>(line) {
        rep.evaluations += v["evaluations"].as_u64().unwrap_or(0);
        if let Some(f) = v["nontrivial_file"].as_str() {
            if let Ok(bytes) = std::fs::read(f) {
                CHILD_HASHES.with(|c| {
                    let mut c = c.borrow_mut();
                    for ch in bytes.chunks_exact(8) {
                        c.push(u64::from_le_bytes(ch.try_into().unwrap()));
                    }
                });
            }
            let _ = std::fs::remove_file(f);
        }
        if let Some(o) = v["counters"].as_object() {
            for (k, n) in o {
                rep.add(k, n.as_u64().unwrap_or(0));
            }
        }
        if let Some(a) = v["samples"].as_array() {
            for s in a {
                rep.sample(s.clone());
            }
        }
        if let Some(a) = v["violations"].as_array() {
            for x in a {
                let n = x["n"].as_u64().unwrap_or(1);
                for _ in 0..n.min(1) {
                    rep.violation(x["sig"].as_str().unwrap_or("?"), x["detail"].as_str().unwrap_or("").to_string(), x["case"].clone());
                }
                if n > 1 {
                    *rep.violation_counts.entry(x["sig"].as_str().unwrap_or("?").to_string()).or_insert(0) += n - 1;
                }
            }
        }
    }
}

/// run one child over a range; returns (exit status description, stdout)
thread_local! {
    /// private copy of this executable for child processes (a rebuild of the harness during a long run
    /// must not pull the binary away from under the shards)
    static CHILD_EXE: std::cell::RefCell<Option<std::path::PathBuf>> = const { std::cell::RefCell::new(None) };
}

pub fn private_exe(work: &Path) -> std::path::PathBuf {
    let dst = work.join("xsgmon-copy");
    if !dst.exists() {
        if let Ok(src) = std::env::current_exe() {
            let _ = std::fs::create_dir_all(work);
            if std::fs::copy(&src, &dst).is_err() {
                return src;
            }
        }
    }
    dst
}

fn spawn_child(seed: u64, from: u64, count: u64, journal: &Path, wrapper: &[&str]) -> std::io::Result<std::process::Child> {
    let exe = match CHILD_EXE.with(|c| c.borrow().clone()) {
        Some(p) => p,
        None => std::env::current_exe()?,
    };
    let mut cmd = if wrapper.is_empty() {
        Command::new(&exe)
    } else {
        let mut c = Command::new(wrapper[0]);
        c.args(&wrapper[1..]);
        c.arg(&exe);
        c
    };
    cmd.arg("c07-shard")
        .arg(seed.to_string())
        .arg(from.to_string())
        .arg(count.to_string())
        .arg(journal)
        .stdout(Stdio::piped())
        .stderr(Stdio::piped());
    cmd.spawn()
}

fn confirm_single(seed: u64, index: u64, work: &Path) -> (bool, String) {
    // re-run the one case alone, three times; a violation only if it reproduces every time
    let mut outcomes = Vec::new();
    for t in 0..3 {
        let j = work.join(format!("confirm-{}-{}.journal", index, t));
        match spawn_child(seed, index, 1, &j, &[]) {
            Ok(child) => {
                let out = child.wait_with_output();
                let _ = std::fs::remove_file(&j);
                match out {
                    Ok(o) => outcomes.push(format!("{:?}", o.status)),
                    Err(e) => outcomes.push(format!("wait failed: {}", e)),
                }
            }
            Err(e) => outcomes.push(format!("spawn failed: {}", e)),
        }
    }
    // reproduced only if the child really ran and ended abnormally every time
    let ran = outcomes.iter().all(|o| !o.contains("spawn failed") && !o.contains("wait failed"));
    let all_bad = ran && outcomes.iter().all(|o| !o.contains("exit status: 0"));
    (all_bad, outcomes.join(", "))
}

pub fn run_c07(thorough: bool, seed: u64, shards: usize) -> (Report, String, Value) {
    let n: u64 = if thorough { 64_000_000 } else { 1_600_000 };
    let work = crate::report::out_dir().join("work").join(format!("c07-{}", std::process::id()));
    let _ = std::fs::create_dir_all(&work);
    CHILD_EXE.with(|c| *c.borrow_mut() = Some(private_exe(&work)));
    let mut rep = Report::new();
    let per = n / shards as u64;
    let mut children = Vec::new();
    for s in 0..shards {
        let j = work.join(format!("shard-{}.journal", s));
        match spawn_child(seed, s as u64 * per, per, &j, &[]) {
            Ok(c) => children.push((s, j, c)),
            Err(e) => rep.inconclusive(&format!("cannot spawn shard: {}", e)),
        }
    }
    let mut dead_shards = 0u64;
    for (s, j, child) in children {
        let out = match child.wait_with_output() {
            Ok(o) => o,
            Err(e) => {
                rep.inconclusive(&format!("shard {} wait failed: {}", s, e));
                continue;
            }
        };
        let stdout = String::from_utf8_lossy(&out.stdout).to_string();
        let mut got_report = false;
        for line in stdout.lines() {
            if let Some(r) = line.strip_prefix("REPORT ") {
                merge_child_report(r, &mut rep);
                got_report = true;
            }
        }
        if !out.status.success() || !got_report {
            dead_shards += 1;
            let idx: Option<u64> = std::fs::read_to_string(&j).ok().and_then(|t| t.trim().parse().ok());
            let hang = stdout.contains("HANG index=");
            let stderr_tail: String = String::from_utf8_lossy(&out.stderr).lines().rev().take(6).collect::<Vec<_>>().join(" | ");
            match idx {
                Some(index) => {
                    let (reproduces, outcomes) = confirm_single(seed, index, &work);
                    let case = gen_byte_case(seed, "C07", index, false);
                    if reproduces {
                        rep.violation(
                            if hang { "process:hang" } else { "process:abort" },
                            format!(
                                "shard {} died ({:?}) while running case {}; re-running that case alone three times: {}\nstderr: {}",
                                s, out.status, index, outcomes, stderr_tail
                            ),
                            case.to_json(),
                        );
                    } else {
                        rep.inconclusive(&format!("shard died ({:?}) at case {} but the case does not reproduce alone ({})", out.status, index, outcomes));
                    }
                }
                None => rep.inconclusive(&format!("shard {} died without journal: {:?} {}", s, out.status, stderr_tail)),
            }
        }
        let _ = std::fs::remove_file(&j);
    }
    rep.add("shards_that_died", dead_shards);
    let distinct_inputs = CHILD_HASHES.with(|c| {
        let mut c = c.borrow_mut();
        c.sort_unstable();
        c.dedup();
        let n = c.len() as u64;
        c.clear();
        c.shrink_to_fit();
        n
    });
    rep.nontrivial_enumerated += distinct_inputs;

    // sanitizer slices (thorough): valgrind memcheck over the same stream
    let mut extra = json!({});
    if thorough {
        let vg_cases = 24_000u64;
        let per = vg_cases / shards as u64;
        let mut kids = Vec::new();
        for s in 0..shards {
            let j = work.join(format!("vg-{}.journal", s));
            let from = 1_000_000_000 + s as u64 * per;
            if let Ok(c) = spawn_child(seed, from, per, &j, &["valgrind", "--error-exitcode=97", "--quiet", "--error-limit=no"]) {
                kids.push((s, j, c, from));
            }
        }
        let mut vg_ok = 0u64;
        let mut vg_errors = 0u64;
        for (s, j, c, from) in kids {
            if let Ok(o) = c.wait_with_output() {
                let stderr = String::from_utf8_lossy(&o.stderr).to_string();
                if o.status.code() == Some(97) || stderr.contains("Invalid read") || stderr.contains("Invalid write") || stderr.contains("uninitialised") {
                    vg_errors += 1;
                    let tail: String = stderr.lines().take(30).collect::<Vec<_>>().join("\n");
                    rep.violation(
                        "memcheck:error",
                        format!("valgrind memcheck reported an error in shard {} (cases from {}):\n{}", s, from, tail),
                        json!({"kind": "bytes-range", "seed": seed, "from": from, "count": per}),
                    );
                } else if o.status.success() {
                    vg_ok += 1;
                    let stdout = String::from_utf8_lossy(&o.stdout).to_string();
                    for line in stdout.lines() {
                        if let Some(r) = line.strip_prefix("REPORT ") {
                            let mut sub = Report::new();
                            merge_child_report(r, &mut sub);
                            rep.add("memcheck_cases", sub.evaluations);
                            for v in sub.violations {
                                rep.violation(&v.sig, v.detail, v.case);
                            }
                        }
                    }
                } else {
                    rep.inconclusive(&format!("valgrind shard ended with {:?}", o.status));
                }
            }
            let _ = std::fs::remove_file(&j);
        }
        extra = json!({"memcheck": {"shards_clean": vg_ok, "shards_with_errors": vg_errors, "tool": "valgrind --error-exitcode=97 (memcheck) on the optimized harness"}});
    }
    let _ = std::fs::remove_dir_all(&work);
    let rule = format!(
        "{} hostile inputs in {} separate processes (journalled, so a dead process pins its case): structure-aware tag mutations, byte mutations, error classes on purpose, splices, raw random bytes, nesting ladders up to depth 200 on a 2 MiB stack; each through into_struct, one third also through extend_struct onto a valid tree; reader kinds str / slice / BufReader capacities 1..4096 / seeded chunk lengths >= 1; all 2^7 settings of quick-xml's Config booleans; every Ok tree rendered under both presets, both sort orders and hostile option strings. Monitors: catch_unwind per call, process exit status, 20 s no-progress watchdog. Distinct: hash of (input bytes, reader config).",
        n, shards
    );
    (rep, rule, extra)
}

pub fn replay(property: &str, case: &Value, rep: &mut Report) -> Result<(), String> {
    let bc = ByteCase::from_json(case).ok_or("cannot decode bytes case")?;
    match property {
        "C07" => {
            check_c07(&bc, rep);
            Ok(())
        }
        "C08" => {
            check_c08(&bc, rep);
            Ok(())
        }
        _ => Err("bytes case does not fit the property".into()),
    }
}
