//! Relational monitors: each verdict relates two or more executions of the real code.
//! C05 determinism, C06 extension laws, C10 option orthogonality, C11 incidental detail.

use std::collections::{HashMap, HashSet};
use std::process::{Command, Stdio};

use serde_json::{json, Value};
use xml_schema_generator::{Element, Options, SortBy};

use crate::bytes;
use crate::extract;
use crate::gen::{self, fnv64, Doc, Pool, Profile, ReaderKind, Rng, Surface};
use crate::hist::{self, guarded, HistoryCase, Mix};
use crate::model::{self, Canon};
use crate::real::{self, Cfg};
use crate::report::Report;

fn collide_profile() -> Profile {
    Profile {
        pool: Pool::Collide,
        max_depth: 3,
        max_children: 7,
        n_elem_names: (3, 6),
        n_attr_names: (0, 3),
        n_docs: (1, 3),
        p_text: 3,
        p_cdata: 1,
        p_misc: 1,
        p_ws: 1,
        ..Profile::general()
    }
}

/// histories aimed at the mechanism in the anchors: colliding identifiers under parents whose
/// later occurrences lack several children at once
pub fn collide_case(seed: u64, label: &str, index: u64) -> HistoryCase {
    let mut r = Rng::derive(seed, label, index);
    if r.chance(1, 4) {
        return hist::random_case(seed, label, index, Mix::Schema);
    }
    let p = if r.chance(1, 8) {
        Profile {
            pool: Pool::SuffixClash,
            n_elem_names: (3, 7),
            n_attr_names: (3, 8),
            ..collide_profile()
        }
    } else {
        collide_profile()
    };
    let mut docs = gen::random_history(&mut r, &p, "c");
    // make repeated parents with empty occurrences likely: append empty twins of some elements
    for d in docs.iter_mut() {
        let mut extra: Vec<gen::Item> = Vec::new();
        for c in d.root.child_elems() {
            if r.chance(1, 2) && c.child_elems().count() >= 2 {
                extra.push(gen::Item::Elem(gen::Elem::new(&c.name)));
            }
        }
        d.root.items.extend(extra);
        d.root.normalize();
    }
    let surfaces = docs.iter().map(|_| Surface::seeded(r.next())).collect();
    HistoryCase {
        origin: format!("collide:{}:{}:{}", seed, label, index),
        docs,
        surfaces,
        kinds: vec![ReaderKind::Str],
        raw_texts: None,
        across_threads: false,
        failed_parse_first: false,
            render_between: false,
    }
}

fn pick_options(r: &mut Rng) -> Options {
    match r.below(6) {
        4 => return Options::quick_xml_de().derive("Serialize, Deserialize, Debug, Clone, PartialEq, Default, Debug"),
        5 => return Options::serde_xml_rs().derive("Debug, Clone, Debug, Clone"),
        _ => {}
    }
    match r.below(4) {
        0 => real::opts_qx(false),
        1 => real::opts_qx(true),
        2 => real::opts("", "$text", "Serialize, Deserialize", false),
        _ => real::opts("@", "$value", "Debug", true),
    }
}

fn clone_opts(o: &Options) -> Options {
    Options {
        text_identifier: o.text_identifier.clone(),
        attribute_prefix: o.attribute_prefix.clone(),
        derive: o.derive.clone(),
        sort: match o.sort {
            SortBy::Unsorted => SortBy::Unsorted,
            SortBy::XmlName => SortBy::XmlName,
        },
    }
}

fn parse_and_render(texts: &[String], kinds: &[ReaderKind], o: &Options) -> Result<String, String> {
    match guarded(|| real::run_history(texts, kinds, Cfg::default()).map(|t| t.to_serde_struct(o))) {
        Ok(Ok(s)) => Ok(s),
        Ok(Err((i, e))) => Err(format!("document {} rejected: {}", i + 1, e)),
        Err(p) => Err(format!("panic: {}", p)),
    }
}

// ---------------------------------------------------------------------------------------
// C05
// ---------------------------------------------------------------------------------------

fn canary_order(names: &[String]) -> u64 {
    let mut m: HashMap<String, u32> = HashMap::new();
    for (i, n) in names.iter().enumerate() {
        m.insert(n.clone(), i as u32);
    }
    let order: Vec<&String> = m.keys().collect();
    fnv64(format!("{:?}", order).as_bytes())
}

fn widest_child_names(docs: &[Doc]) -> Vec<String> {
    let m = model::infer(docs);
    fn widest<'a>(n: &'a model::SNode, best: &mut Vec<String>) {
        if n.children.len() > best.len() {
            *best = n.children.iter().map(|c| c.name.clone()).collect();
        }
        for c in &n.children {
            widest(&c.node, best);
        }
    }
    let mut best = Vec::new();
    widest(&m, &mut best);
    best
}

pub fn check_c05(case: &HistoryCase, reps: usize, threads: usize, rep: &mut Report) {
    crate::report::journal_enter(|| case.to_json());
    rep.evaluations += 1;
    let texts = case.texts();
    let mut r = Rng::new(fnv64(texts.concat().as_bytes()));
    let o = pick_options(&mut r);
    let base = match parse_and_render(&texts, &case.kinds, &o) {
        Ok(s) => s,
        Err(e) => {
            rep.violation("run-failed", e, case.to_json());
            return;
        }
    };
    let names = widest_child_names(&case.docs);
    let mut canaries: HashSet<u64> = HashSet::new();
    let mut outputs: HashSet<u64> = HashSet::new();
    outputs.insert(fnv64(base.as_bytes()));
    // a damaged copy of the first document, parsed (and rejected) between repetitions on this thread:
    // state left behind by a failed call must not influence the next one
    let damaged: Option<String> = texts[0].rfind("</").map(|p| format!("{}</mismatch>", &texts[0][..p]));
    for i in 0..reps {
        canaries.insert(canary_order(&names));
        if i % 3 == 1 {
            if let Some(d) = &damaged {
                let _ = guarded(|| real::parse_bytes(d.as_bytes(), ReaderKind::Slice, Cfg::default()).is_ok());
                rep.count("failed_parses_interleaved");
            }
        }
        match parse_and_render(&texts, &case.kinds, &o) {
            Ok(s) => {
                if s != base {
                    outputs.insert(fnv64(s.as_bytes()));
                    rep.violation(
                        "nondeterministic:same-thread",
                        format!("repetition {} of the same history and options rendered different bytes\nfirst:\n{}\nlater:\n{}", i + 1, base, s),
                        case.to_json(),
                    );
                    return;
                }
            }
            Err(e) => {
                rep.violation("nondeterministic:outcome", format!("repetition {}: {}", i + 1, e), case.to_json());
                return;
            }
        }
    }
    rep.add("repetitions", reps as u64);
    // the same history once more, the tree being rendered (other options, then the same options) after
    // every step before it is extended further: what was rendered earlier must not change the bytes
    if texts.len() > 1 {
        let o2 = clone_opts(&o);
        let along = guarded(|| {
            let kind = |i: usize| if case.kinds.is_empty() { ReaderKind::Str } else { case.kinds[i % case.kinds.len()] };
            let mut root = real::parse_bytes(texts[0].as_bytes(), kind(0), Cfg::default()).map_err(|e| e.to_string())?;
            for (i, t) in texts.iter().enumerate().skip(1) {
                let _ = root.to_serde_struct(&real::opts("", "text_content", "Debug", i % 2 == 0));
                let _ = root.to_serde_struct(&o2);
                root = real::extend_bytes(t.as_bytes(), kind(i), Cfg::default(), root).map_err(|e| e.to_string())?;
            }
            Ok::<String, String>(root.to_serde_struct(&o2))
        });
        rep.count("repetitions_rendering_after_every_step");
        match along {
            Ok(Ok(s)) if s == base => {}
            Ok(Ok(s)) => {
                rep.violation(
                    "nondeterministic:depends-on-earlier-rendering",
                    format!("the same history and options rendered different bytes when the tree had been rendered between the steps\nrendered once at the end:\n{}\nrendered along the way:\n{}", base, s),
                    case.to_json(),
                );
                return;
            }
            Ok(Err(e)) => {
                rep.violation("nondeterministic:outcome", format!("with renderings between the steps: {}", e), case.to_json());
                return;
            }
            Err(p) => {
                rep.violation("nondeterministic:outcome", format!("panic with renderings between the steps: {}", p), case.to_json());
                return;
            }
        }
    }
    if names.len() >= 3 {
        if canaries.len() >= 2 {
            rep.count("cases_where_canary_hash_order_varied");
            rep.nontrivial.insert(fnv64(base.as_bytes()));
        } else {
            rep.count("cases_where_canary_saw_one_order");
        }
        rep.max("max_distinct_canary_orders", canaries.len() as u64);
    }
    // threads: independent parse+render, and concurrent rendering of one shared tree
    if threads > 0 {
        let tree: Option<Element<String>> = guarded(|| real::run_history(&texts, &case.kinds, Cfg::default())).ok().and_then(|r| r.ok());
        let results: Vec<Result<String, String>> = std::thread::scope(|s| {
            let hs: Vec<_> = (0..threads)
                .map(|t| {
                    let texts = &texts;
                    let kinds = &case.kinds;
                    let o = clone_opts(&o);
                    // a shared reference when Element<String> is Sync (it is on the pinned tree); a tree
                    // that made it !Sync is still observed, each thread rendering its own clone
                    #[cfg(not(feature = "element_not_sync"))]
                    let tree = &tree;
                    #[cfg(feature = "element_not_sync")]
                    let tree = tree.clone();
                    s.spawn(move || {
                        if t % 2 == 0 {
                            parse_and_render(texts, kinds, &o)
                        } else {
                            match &tree {
                                Some(tr) => guarded(|| tr.to_serde_struct(&o)),
                                None => Err("no tree".into()),
                            }
                        }
                    })
                })
                .collect();
            hs.into_iter().map(|h| h.join().unwrap_or_else(|_| Err("thread panicked".into()))).collect()
        });
        rep.add("thread_runs", threads as u64);
        for (t, res) in results.into_iter().enumerate() {
            match res {
                Ok(s) if s == base => {}
                Ok(s) => {
                    rep.violation(
                        "nondeterministic:across-threads",
                        format!("thread {} rendered different bytes\nmain:\n{}\nthread:\n{}", t, base, s),
                        case.to_json(),
                    );
                    return;
                }
                Err(e) => {
                    rep.violation("nondeterministic:outcome", format!("thread {}: {}", t, e), case.to_json());
                    return;
                }
            }
        }
    }
}

/// child process for the across-processes clause: prints "<index> <hash>" per case. `order` decides in
/// which order the cases are executed (0 forward, 1 backward, 2 shuffled), so that state leaking from one
/// call into the next (a cache, a memo, a counter) shows up as a difference between processes.
pub fn c05_child_main(seed: u64, from: u64, count: u64, order: u64) -> i32 {
    let mut idx: Vec<u64> = (0..count).collect();
    match order {
        1 => idx.reverse(),
        2 => {
            let mut r = Rng::new(seed ^ 0xABCD);
            r.shuffle(&mut idx);
        }
        _ => {}
    }
    let mut out = String::new();
    for k in idx {
        let case = collide_case(seed, "C05", from + k);
        let texts = case.texts();
        let mut r = Rng::new(fnv64(texts.concat().as_bytes()));
        let o = pick_options(&mut r);
        let h = match parse_and_render(&texts, &case.kinds, &o) {
            Ok(s) => format!("{:016x}{:016x}", fnv64(s.as_bytes()), fnv64(format!("x{}", s).as_bytes())),
            Err(e) => format!("ERR{:016x}", fnv64(e.as_bytes())),
        };
        out.push_str(&format!("{} {}\n", k, h));
    }
    print!("{}", out);
    0
}

pub fn run_c05(thorough: bool, seed: u64, shards: usize) -> (Report, String) {
    let n: u64 = if thorough { 1_600_000 } else { 64_000 };
    let reps = if thorough { 64 } else { 40 };
    let threads = 4;
    let mut rep = crate::report::sharded(shards, |shard| {
        let mut rep = Report::new();
        let per = n / shards as u64;
        for k in 0..per {
            let case = collide_case(seed, "C05", shard as u64 * per + k);
            let th = if k % 8 == 0 { threads } else { 0 };
            check_c05(&case, reps, th, &mut rep);
            if rep.samples.len() < 2 && k % 97 == 13 {
                rep.sample(json!({"documents": case.texts()}));
            }
        }
        rep
    });
    // threshold families (wide parents whose late children are demoted together, deep chains ...)
    let th = hist::threshold_and_magnitude_light(seed, thorough);
    let sub = crate::report::sharded(shards, |shard| {
        let mut r = Report::new();
        for (i, c) in th.iter().enumerate() {
            if i % shards == shard {
                check_c05(c, 12, if i % 4 == 0 { threads } else { 0 }, &mut r);
                r.count("threshold_cases");
            }
        }
        r
    });
    rep.merge(sub);
    if crate::report::child_mode().is_some() {
        return (rep, String::new());
    }
    // processes: the first `np_cases` cases hashed by P fresh processes
    let procs = if thorough { 8 } else { 4 };
    let np_cases: u64 = if thorough { 200_000 } else { 20_000 };
    let c05_work = crate::report::out_dir().join("work").join(format!("c05-{}", std::process::id()));
    let exe = bytes::private_exe(&c05_work);
    let kids: Vec<_> = (0..procs)
        .filter_map(|p| {
            let mut c = Command::new(&exe);
            c.arg("c05-child").arg(seed.to_string()).arg("0").arg(np_cases.to_string()).arg((p % 3).to_string());
            // different process environments: locale, time zone, working directory, logging, home
            match p % 4 {
                1 => {
                    c.env("LANG", "tr_TR.UTF-8").env("LC_ALL", "tr_TR.UTF-8").env("TZ", "Asia/Tokyo").current_dir("/");
                }
                2 => {
                    // logging off in this process (it is on, at Trace level, in the others)
                    c.env("XSG_LOG", "off").env("RUST_LOG", "trace").env("HOME", "/nonexistent").env("RUST_BACKTRACE", "1").current_dir("/tmp");
                }
                3 => {
                    c.env_clear();
                }
                _ => {}
            }
            c.stdout(Stdio::piped()).stderr(Stdio::null()).spawn().ok()
        })
        .collect();
    let mut outputs: Vec<Vec<String>> = Vec::new();
    for k in kids {
        match k.wait_with_output() {
            Ok(o) if o.status.success() => {
                let mut v: Vec<String> = vec![String::new(); np_cases as usize];
                for l in String::from_utf8_lossy(&o.stdout).lines() {
                    if let Some((i, h)) = l.split_once(' ') {
                        if let Ok(i) = i.parse::<usize>() {
                            if i < v.len() {
                                v[i] = h.to_string();
                            }
                        }
                    }
                }
                outputs.push(v)
            }
            Ok(o) => rep.inconclusive(&format!("determinism child ended with {:?}", o.status)),
            Err(e) => rep.inconclusive(&format!("determinism child: {}", e)),
        }
    }
    if outputs.len() >= 2 {
        rep.add("process_runs", outputs.len() as u64);
        rep.add("cases_compared_across_processes", np_cases);
        for i in 0..np_cases as usize {
            let first = outputs[0].get(i);
            for (p, o) in outputs.iter().enumerate().skip(1) {
                if o.get(i) != first {
                    let case = collide_case(seed, "C05", i as u64);
                    rep.violation(
                        "nondeterministic:across-processes",
                        format!(
                            "case {}: process 0 (cases in forward order, default environment) rendered hash {:?}, process {} (order {}, environment variant {}) rendered {:?}",
                            i,
                            first,
                            p,
                            ["forward", "backward", "shuffled"][p % 3],
                            p % 4,
                            o.get(i)
                        ),
                        case.to_json(),
                    );
                    break;
                }
            }
        }
    } else {
        rep.inconclusive("fewer than two determinism child processes completed");
    }
    let _ = std::fs::remove_dir_all(&c05_work);
    let rule = format!(
        "{} histories (three quarters from a collision profile: sibling names a-b/a_b/a.b/aB/Foo/foo..., attribute/child/text identifier clashes, repeated parents with empty occurrences; one quarter general), each parsed and rendered {} more times in the same thread (fresh RandomState per HashMap) and once more with the tree rendered after every step before the next extension (what was rendered earlier must not change the bytes), every 8th also by {} threads (independent parse+render and concurrent rendering of one shared tree), and the first {} cases by {} fresh processes compared by 128-bit hash — the processes execute the cases in different orders (forward, backward, shuffled: state leaking between calls would show) and under different environments (locale/time zone/cwd; HOME pointing nowhere and the `log` sink switched off while it is on at Trace level elsewhere; empty environment). A canary HashMap filled with the same child names records whether iteration orders actually varied; non-trivial = cases (>= 3 sibling names) where >= 2 canary orders were seen; distinct by rendered bytes.",
        n, reps, threads, np_cases, procs
    );
    (rep, rule)
}

// ---------------------------------------------------------------------------------------
// C11
// ---------------------------------------------------------------------------------------

fn render_both(tree: &Element<String>) -> Result<(String, String), String> {
    let a = guarded(|| tree.to_serde_struct(&real::opts_qx(false)))?;
    let b = guarded(|| tree.to_serde_struct(&real::opts_qx(true)))?;
    Ok((a, b))
}

fn run_texts(texts: &[String], kinds: &[ReaderKind], cfg: Cfg) -> Result<(String, String), String> {
    match guarded(|| real::run_history(texts, kinds, cfg)) {
        Ok(Ok(t)) => render_both(&t),
        Ok(Err((i, e))) => Err(format!("document {} rejected: {}", i + 1, e)),
        Err(p) => Err(format!("panic: {}", p)),
    }
}

pub fn check_c11(case: &HistoryCase, rep: &mut Report) {
    crate::report::journal_enter(|| case.to_json());
    rep.evaluations += 1;
    let mut r = Rng::new(fnv64(format!("{:?}", case.origin).as_bytes()));
    let plain: Vec<String> = case.docs.iter().map(|d| gen::write_doc(d, &Surface { seed: 1, empty_style: 0, fancy: false, lead: 0 })).collect();
    let base = match run_texts(&plain, &[ReaderKind::Str], Cfg::default()) {
        Ok(b) => b,
        Err(e) => {
            rep.violation("run-failed", e, case.to_json());
            return;
        }
    };
    let m = model::infer(&case.docs);
    if m.count_nodes() > 1 || !m.attrs.is_empty() {
        rep.nontrivial.insert(fnv64(base.0.as_bytes()));
    }
    let mut variants: Vec<(&'static str, Vec<String>, Vec<ReaderKind>, Cfg)> = Vec::new();
    // (a) spelling of empty elements
    let open_close: Vec<String> = case.docs.iter().map(|d| gen::write_doc(d, &Surface { seed: 1, empty_style: 1, fancy: false, lead: 0 })).collect();
    if open_close != plain {
        rep.count("pairs_differing_in_empty_element_spelling");
    }
    variants.push(("empty-element-spelling", open_close, vec![ReaderKind::Str], Cfg::default()));
    let mixed: Vec<String> = case.docs.iter().map(|d| gen::write_doc(d, &Surface { seed: r.next(), empty_style: 2, fancy: false, lead: 0 })).collect();
    variants.push(("empty-element-spelling", mixed, vec![ReaderKind::Str], Cfg::default()));
    // (b) expand_empty_elements on the same bytes
    variants.push(("expand-empty-elements", plain.clone(), vec![ReaderKind::Str], Cfg::EXPAND_EMPTY));
    // (c) other readers / buffer sizes on the same bytes
    let kinds: Vec<ReaderKind> = (0..case.docs.len()).map(|_| ReaderKind::random(&mut r)).collect();
    variants.push(("reader-kind-or-buffer-size", plain.clone(), kinds, Cfg::default()));
    variants.push(("reader-kind-or-buffer-size", plain.clone(), vec![ReaderKind::BufReader(1)], Cfg::default()));
    // (c2) blanks / a byte order mark in front of the document, through small buffers
    for lead in [1u8, 2, 3] {
        let t: Vec<String> = case.docs.iter().map(|d| gen::write_doc(d, &Surface { seed: 1, empty_style: 0, fancy: false, lead })).collect();
        let k = match lead {
            1 => ReaderKind::BufReader(*r.pick(&[1usize, 2, 3, 4, 5, 8])),
            2 => ReaderKind::BufReader(*r.pick(&[1usize, 2, 3])),
            _ => ReaderKind::Chunky(r.next(), 2),
        };
        variants.push(("prolog-blanks-or-bom", t.clone(), vec![k], Cfg::default()));
        variants.push(("prolog-blanks-or-bom", t, vec![ReaderKind::Str], Cfg::default()));
    }
    // (d) surface syntax: quotes, blanks in tags, character references
    let fancy: Vec<String> = case.docs.iter().map(|d| gen::write_doc(d, &Surface { seed: r.next(), empty_style: 0, fancy: true, lead: 0 })).collect();
    variants.push(("surface-syntax", fancy, vec![ReaderKind::Str], Cfg::default()));
    // (e) content rewrites: values, text<->CDATA, comments, PIs, declaration, DOCTYPE
    for _ in 0..2 {
        let rewritten: Vec<Doc> = case.docs.iter().map(|d| gen::rewrite_incidental(d, &mut r)).collect();
        // the rewrite must not change the structure: guard the generator itself
        if model::canon_of_model(&model::infer(&rewritten)) != model::canon_of_model(&m) {
            rep.inconclusive("rewrite changed the reference schema (generator fault)");
            continue;
        }
        let t: Vec<String> = rewritten.iter().map(|d| gen::write_doc(d, &Surface { seed: 1, empty_style: 0, fancy: false, lead: 0 })).collect();
        variants.push(("content-rewrite", t, vec![ReaderKind::Str], Cfg::default()));
        let t2: Vec<String> = rewritten.iter().map(|d| gen::write_doc(d, &Surface::seeded(r.next()))).collect();
        let kinds: Vec<ReaderKind> = (0..case.docs.len()).map(|_| ReaderKind::random(&mut r)).collect();
        variants.push(("combined-rewrites", t2, kinds, if r.chance(1, 2) { Cfg::EXPAND_EMPTY } else { Cfg::default() }));
    }
    for (label, texts, kinds, cfg) in variants {
        rep.count(&format!("variants {}", label));
        match run_texts(&texts, &kinds, cfg) {
            Ok(v) => {
                if v != base {
                    let (which, a, b) = if v.0 != base.0 { ("unsorted", &base.0, &v.0) } else { ("sorted", &base.1, &v.1) };
                    rep.violation(
                        &format!("incidental:{}", label),
                        format!(
                            "the {} rendering changes under the rewrite '{}'\noriginal documents: {:?}\nrewritten documents: {:?}\nreaders {:?}, {}\noriginal output:\n{}\nrewritten output:\n{}",
                            which,
                            label,
                            plain,
                            texts,
                            kinds,
                            cfg.describe(),
                            a,
                            b
                        ),
                        json!({"kind": "history", "origin": case.origin, "texts": plain, "rewritten": texts, "case": serde_json::to_value(case).unwrap()}),
                    );
                    return;
                }
            }
            Err(e) => {
                rep.violation(
                    &format!("incidental:{}:rejected", label),
                    format!("rewritten documents {:?}: {}", texts, e),
                    case.to_json(),
                );
                return;
            }
        }
    }
    if rep.samples.len() < 2 && rep.evaluations % 53 == 7 {
        rep.sample(json!({"documents": plain, "rendered": base.0}));
    }
}

pub fn run_c11(thorough: bool, seed: u64, shards: usize) -> (Report, String) {
    let n: u64 = if thorough { 6_000_000 } else { 240_000 };
    let docs_a = hist::tiny_docs(3, true, false);
    let na = docs_a.len();
    let th11 = hist::threshold_and_magnitude_light(seed, thorough);
    let rep = crate::report::sharded(shards, |shard| {
        let mut rep = Report::new();
        let per = n / shards as u64;
        for k in 0..per {
            let idx = shard as u64 * per + k;
            let case = if k % 2 == 0 {
                collide_case(seed, "C11", idx)
            } else {
                hist::random_case(seed, "C11", idx, Mix::Schema)
            };
            check_c11(&case, &mut rep);
        }
        for (i, c) in th11.iter().enumerate() {
            if i % shards == shard {
                check_c11(c, &mut rep);
                rep.count("threshold_cases");
            }
        }
        // exhaustive tiny documents and sampled pairs: `<x/>` vs `<x></x>` under every small history
        let mut r = Rng::derive(seed, "C11-tiny", shard as u64);
        for (i, d) in docs_a.iter().enumerate() {
            if i % shards == shard {
                check_c11(&HistoryCase::plain("exhaustive:single", vec![d.clone()]), &mut rep);
                for _ in 0..4 {
                    let e = docs_a[r.below(na)].clone();
                    check_c11(&HistoryCase::plain("tiny:pair", vec![d.clone(), e]), &mut rep);
                }
            }
        }
        rep
    });
    let rule = format!(
        "{} random histories (half from the identifier-collision profile, half general) plus every tiny document over {{a,b}} (<= 3 elements below the root, attribute on/off; {} documents) alone and in 4 sampled pairs; each compared byte-for-byte (sorted and unsorted rendering) with ~10 rewritten variants: all-`<x/>` vs all-`<x></x>` vs mixed, expand_empty_elements, other reader kinds and buffer capacities down to 1, other quote/blank/character-reference syntax, new attribute values, text <-> other text <-> CDATA <-> split text, comments/PIs inserted or removed, XML declaration and DOCTYPE toggled. Whitespace-only text stays whitespace-only. Distinct: rendered bytes of the original.",
        n, na
    );
    (rep, rule)
}

// ---------------------------------------------------------------------------------------
// C06
// ---------------------------------------------------------------------------------------

fn canon_of_output(out: &str) -> Result<Canon, String> {
    let (_, t) = hist::extract_tree(out)?;
    Ok(extract::canon_of_tree(&t))
}

fn canon_after(texts: &[String]) -> Result<(Canon, String), String> {
    match guarded(|| real::run_history(texts, &[ReaderKind::Str], Cfg::default())) {
        Ok(Ok(t)) => {
            let out = guarded(|| t.to_serde_struct(&real::opts_qx(false)))?;
            Ok((canon_of_output(&out).map_err(|e| format!("extractor: {}", e))?, out))
        }
        Ok(Err((i, e))) => Err(format!("document {} rejected: {}", i + 1, e)),
        Err(p) => Err(format!("panic: {}", p)),
    }
}

/// does `b` keep everything `a` had, never tightening it?
fn monotone(a: &Canon, b: &Canon, path: &str) -> Option<String> {
    // (an empty struct legitimately becomes String once text is seen; a struct with fields cannot,
    // because the field checks below would report the dropped field)
    if a.has_text && !b.has_text {
        return Some(format!("{}: text field lost", path));
    }
    for (n, opt) in &a.attrs {
        match b.attrs.iter().find(|(m, _)| m == n) {
            None => return Some(format!("{}: attribute field {} dropped", path, n)),
            Some((_, o2)) => {
                if *opt && !*o2 {
                    return Some(format!("{}: attribute {} was Option and became required", path, n));
                }
            }
        }
    }
    for (n, opt, vec, sub) in &a.children {
        match b.children.iter().find(|c| c.0 == *n) {
            None => return Some(format!("{}: child field {} dropped", path, n)),
            Some((_, o2, v2, s2)) => {
                if *opt && !*o2 {
                    return Some(format!("{}: child {} was Option and became required", path, n));
                }
                if *vec && !*v2 {
                    return Some(format!("{}: child {} was Vec and became single", path, n));
                }
                if let Some(d) = monotone(sub, s2, &format!("{}/{}", path, n)) {
                    return Some(d);
                }
            }
        }
    }
    None
}

fn permutations(n: usize, r: &mut Rng, limit: usize) -> Vec<Vec<usize>> {
    if n <= 4 {
        let mut out = Vec::new();
        fn go(cur: &mut Vec<usize>, n: usize, out: &mut Vec<Vec<usize>>) {
            if cur.len() == n {
                out.push(cur.clone());
                return;
            }
            for i in 0..n {
                if !cur.contains(&i) {
                    cur.push(i);
                    go(cur, n, out);
                    cur.pop();
                }
            }
        }
        go(&mut Vec::new(), n, &mut out);
        out
    } else {
        (0..limit)
            .map(|_| {
                let mut p: Vec<usize> = (0..n).collect();
                r.shuffle(&mut p);
                p
            })
            .collect()
    }
}

const ELEMENTLESS: &[&str] = &["", " ", "\n\n", "<!-- only a comment -->", "<?xml version=\"1.0\"?>", "<?xml version=\"1.0\"?>\n<!DOCTYPE r>\n", "just text", "<?pi?>"];

pub fn check_c06(case: &HistoryCase, rep: &mut Report) {
    crate::report::journal_enter(|| case.to_json());
    rep.evaluations += 1;
    let m = model::infer(&case.docs);
    if !model::bound_names_unique(&m) {
        rep.skipped_precondition += 1;
        return;
    }
    let texts = case.texts();
    let k = texts.len();
    let mut r = Rng::new(fnv64(texts.concat().as_bytes()));
    let viol = |rep: &mut Report, sig: &str, detail: String, extra: Value| {
        let mut c = case.to_json();
        if let Some(o) = c.as_object_mut() {
            o.insert("law".into(), extra);
        }
        rep.violation(sig, detail, c);
    };

    // step-by-step: monotonicity after every extension, equivalence with batch inference at the end
    let mut tree = match guarded(|| real::parse_bytes(texts[0].as_bytes(), ReaderKind::Str, Cfg::default())) {
        Ok(Ok(t)) => t,
        Ok(Err(e)) => {
            viol(rep, "run-failed", format!("document 1 rejected: {}", e), json!(null));
            return;
        }
        Err(p) => {
            viol(rep, "panic", p, json!(null));
            return;
        }
    };
    let render = |t: &Element<String>| -> Result<(Canon, String), String> {
        let out = guarded(|| t.to_serde_struct(&real::opts_qx(false)))?;
        Ok((canon_of_output(&out).map_err(|e| format!("extractor: {}", e))?, out))
    };
    let mut prev = match render(&tree) {
        Ok(x) => x,
        Err(e) => {
            rep.inconclusive(&hist::short(&e));
            return;
        }
    };
    for i in 1..k {
        // an element-less input in between must change nothing
        if r.chance(1, 3) {
            let junk = *r.pick(ELEMENTLESS);
            match guarded(|| real::extend_bytes(junk.as_bytes(), ReaderKind::Str, Cfg::default(), tree.clone())) {
                Ok(Ok(t2)) => match render(&t2) {
                    Ok(now) => {
                        rep.count("elementless_extensions");
                        if now.1 != prev.1 {
                            viol(rep, "law:elementless-input-changes-output", format!("extending with {:?} changed the output\nbefore:\n{}\nafter:\n{}", junk, prev.1, now.1), json!({"junk": junk, "after_documents": i}));
                            return;
                        }
                        tree = t2;
                    }
                    Err(e) => {
                        rep.inconclusive(&hist::short(&e));
                        return;
                    }
                },
                Ok(Err(e)) => {
                    viol(rep, "law:elementless-input-rejected", format!("extending with the element-less input {:?} failed: {}", junk, e), json!({"junk": junk}));
                    return;
                }
                Err(p) => {
                    viol(rep, "panic", p, json!({"junk": junk}));
                    return;
                }
            }
        }
        tree = match guarded(|| real::extend_bytes(texts[i].as_bytes(), ReaderKind::Str, Cfg::default(), tree)) {
            Ok(Ok(t)) => t,
            Ok(Err(e)) => {
                viol(rep, "run-failed", format!("document {} rejected: {}", i + 1, e), json!(null));
                return;
            }
            Err(p) => {
                viol(rep, "panic", p, json!(null));
                return;
            }
        };
        let now = match render(&tree) {
            Ok(x) => x,
            Err(e) => {
                rep.inconclusive(&hist::short(&e));
                return;
            }
        };
        rep.count("extension_steps");
        if let Some(d) = monotone(&prev.0, &now.0, "") {
            viol(rep, "law:not-monotone", format!("extending with document {} tightened or dropped something: {}\nbefore:\n{}\nafter:\n{}", i + 1, d, prev.1, now.1), json!({"step": i + 1}));
            return;
        }
        prev = now;
    }
    let final_canon = prev.0.clone();
    let mut expected = model::canon_of_model(&m);
    expected.string_typed = false;
    if let Some(d) = final_canon.diff(&expected, "") {
        viol(rep, "law:not-union", format!("schema after all extensions differs from the inference over the union of all occurrences: {}\n{}", d, prev.1), json!(null));
        return;
    }
    if m.count_nodes() > 1 && k > 1 {
        rep.nontrivial.insert(fnv64(format!("{}|{}", final_canon.describe(), k).as_bytes()));
    }

    // order independence
    if k > 1 {
        for p in permutations(k, &mut r, 6) {
            let t: Vec<String> = p.iter().map(|i| texts[*i].clone()).collect();
            rep.count("permutations_run");
            match canon_after(&t) {
                Ok((c, out)) => {
                    if let Some(d) = c.diff(&final_canon, "") {
                        viol(rep, "law:order-dependent", format!("supplying the documents in order {:?} gives a different schema: {}\npermuted output:\n{}\noriginal output:\n{}", p, d, out, prev.1), json!({"permutation": p}));
                        return;
                    }
                }
                Err(e) => {
                    if e.starts_with("extractor") {
                        rep.inconclusive(&hist::short(&e));
                    } else {
                        viol(rep, "law:order-dependent-outcome", format!("order {:?}: {}", p, e), json!({"permutation": p}));
                    }
                    return;
                }
            }
        }
    }
    // idempotence: supplying any document again changes nothing in the schema
    for i in 0..k {
        let mut t = texts.clone();
        let at = r.range(i + 1, k);
        t.insert(at, texts[i].clone());
        rep.count("duplicate_supplies_run");
        match canon_after(&t) {
            Ok((c, out)) => {
                if let Some(d) = c.diff(&final_canon, "") {
                    viol(rep, "law:duplicate-changes-schema", format!("supplying document {} a second time (at position {}) changed the schema: {}\n{}", i + 1, at + 1, d, out), json!({"duplicate": i, "at": at}));
                    return;
                }
            }
            Err(e) => {
                rep.inconclusive(&hist::short(&e));
                return;
            }
        }
    }
    // a failed extension reports an error
    let victim = &texts[r.below(k)];
    let damaged = {
        let mut tries = 0;
        loop {
            let cand = match r.below(3) {
                0 => bytes_mismatch(victim),
                1 => gen::mutate_bytes(victim.as_bytes(), &mut r),
                _ => victim.as_bytes()[..r.below(victim.len() + 1)].to_vec(),
            };
            let flat = bytes::flat_oracle(&cand, ReaderKind::Slice);
            tries += 1;
            if flat.fault.is_some() || tries > 6 {
                break (cand, flat);
            }
        }
    };
    if damaged.1.fault.is_some() {
        rep.count("failed_extensions_checked");
        match guarded(|| real::extend_bytes(&damaged.0, ReaderKind::Slice, Cfg::default(), tree.clone())) {
            Ok(Err(_)) => {}
            Ok(Ok(_)) => {
                viol(rep, "law:failed-extension-returns-ok", format!("extending with {:?} (fault {:?}) returned Ok instead of an error", String::from_utf8_lossy(&damaged.0), damaged.1.fault), json!({"damaged_hex": bytes::hex(&damaged.0)}));
            }
            Err(p) => viol(rep, "panic", p, json!({"damaged_hex": bytes::hex(&damaged.0)})),
        }
    }
    if rep.samples.len() < 2 && k > 1 && rep.evaluations % 41 == 3 {
        rep.sample(json!({"documents": texts, "schema": final_canon.describe()}));
    }
}

fn bytes_mismatch(t: &str) -> Vec<u8> {
    match t.rfind("</") {
        Some(p) => {
            let mut v = t.as_bytes()[..p].to_vec();
            v.extend_from_slice(b"</mismatch>");
            v
        }
        None => {
            let mut v = t.as_bytes().to_vec();
            v.extend_from_slice(b"</stray>");
            v
        }
    }
}

pub fn run_c06(thorough: bool, seed: u64, shards: usize) -> (Report, String) {
    let n: u64 = if thorough { 4_000_000 } else { 160_000 };
    let docs_a = hist::tiny_docs(3, true, false);
    let na = docs_a.len();
    let th06 = hist::threshold_and_magnitude_light(seed, thorough);
    let rep = crate::report::sharded(shards, |shard| {
        let mut rep = Report::new();
        let per = n / shards as u64;
        let mut r = Rng::derive(seed, "C06-tiny", shard as u64);
        for (i, c) in th06.iter().enumerate() {
            if i % shards == shard {
                check_c06(c, &mut rep);
                rep.count("threshold_cases");
            }
        }
        for k in 0..per {
            let idx = shard as u64 * per + k;
            let case = match k % 4 {
                0 => {
                    // 2..4 documents from the exhaustively enumerated tiny set
                    let cnt = r.range(2, 4);
                    HistoryCase::plain("tiny:history", (0..cnt).map(|_| docs_a[r.below(na)].clone()).collect())
                }
                1 => {
                    let mut c = hist::random_case(seed, "C06", idx, Mix::Schema);
                    c.kinds = vec![ReaderKind::Str];
                    c
                }
                _ => {
                    let mut rr = Rng::derive(seed, "C06-multi", idx);
                    let p = Profile {
                        n_docs: (2, 6),
                        max_depth: 4,
                        max_children: 4,
                        ..if rr.chance(1, 2) { Profile::tiny() } else { Profile::general() }
                    };
                    let docs = gen::random_history(&mut rr, &p, "m");
                    HistoryCase::plain(&format!("multi:{}:{}", seed, idx), docs)
                }
            };
            check_c06(&case, &mut rep);
            // a failing reader in the middle of an extension: Err, or Ok with exactly the union schema
            if k % 20 == 3 {
                let texts = case.texts();
                if texts.iter().map(|t| t.len()).sum::<usize>() <= 6000 {
                    let mut fr = Rng::derive(seed, "C06-faults", idx);
                    crate::fault::sweep(&texts, &mut fr, 12, &mut rep, &case.origin);
                }
            }
        }
        rep
    });
    let rule = format!(
        "{} histories of 2..6 documents with a common root (a quarter drawn from the {} exhaustively enumerated tiny documents, the rest random tiny/general profiles). For each: monotonicity checked after EVERY extension step; element-less inputs (empty, blanks, comment only, prolog only, plain text, PI) interleaved at random steps must leave the output unchanged; the final schema must equal the reference inference over the union; every permutation (k <= 4) or 6 sampled ones (k > 4) must give the same canonical schema; each document supplied a second time at a random later position must not change it; a damaged extension (fault confirmed by the C08 flat-pass oracle) must return Err; every 20th history is supplied again through a BufRead reporting an io::Error (seven kinds once or for good, Interrupted once) at 12 byte offsets of one step: Err, or Ok rendering byte-identically to the fault-free extension, and a fault that never clears before the root element ends must be Err. Canonical schema = fields by serde name, Option, Vec, text flag, String typing, nesting (identifiers, struct names and order deliberately excluded). Non-trivial: >= 2 documents and > 1 position; distinct by final canonical schema.",
        n, na
    );
    (rep, rule)
}

// ---------------------------------------------------------------------------------------
// C10
// ---------------------------------------------------------------------------------------

const S_DERIVE: &str = "\u{E010}D\u{E011}";
const S_PREFIX: &str = "\u{E012}";
const S_TEXT: &str = "\u{E013}T\u{E014}";

/// expected output for options (d, p, t) computed from the sentinel rendering of the same sort order
pub fn transform(sentinel_out: &str, d: &str, p: &str, t: &str) -> Result<String, String> {
    let derive_line = format!("#[derive({})]", S_DERIVE);
    let text_line = format!("    #[serde(rename = \"{}\")]", S_TEXT);
    let attr_prefix = format!("    #[serde(rename = \"{}", S_PREFIX);
    let lines: Vec<&str> = sentinel_out.split('\n').collect();
    let mut out: Vec<String> = Vec::new();
    let mut i = 0;
    while i < lines.len() {
        let l = lines[i];
        if l == derive_line {
            if !d.is_empty() {
                out.push(format!("#[derive({})]", d));
            }
        } else if l == text_line {
            out.push(format!("    #[serde(rename = \"{}\")]", t));
        } else if let Some(rest) = l.strip_prefix(attr_prefix.as_str()) {
            let name = rest.strip_suffix("\")]").ok_or("malformed attribute rename line in the sentinel rendering")?;
            let field = lines.get(i + 1).ok_or("rename line without field")?;
            let ident = field
                .strip_prefix("    pub ")
                .and_then(|f| f.split(": ").next())
                .ok_or("rename line not followed by a field")?;
            let bound = format!("{}{}", p, name);
            if bound != ident {
                out.push(format!("    #[serde(rename = \"{}\")]", bound));
            }
        } else {
            if l.contains('\u{E010}') || l.contains('\u{E012}') || l.contains('\u{E013}') {
                return Err(format!("a sentinel appears in an unexpected place: {:?}", l));
            }
            out.push(l.to_string());
        }
        i += 1;
    }
    Ok(out.join("\n"))
}

const LONG_OPTION: &str = "Serialize, Deserialize, Debug, Clone, PartialEq, Eq, Hash, PartialOrd, Ord, Default, Serialize, Deserialize, Debug, Clone, PartialEq, Eq, Hash, PartialOrd, Ord, Default, Serialize, Deserialize, Debug, Clone, PartialEq, Eq, Hash, PartialOrd, Ord, Default, Serialize, Deserialize, Debug, Clone, PartialEq, Eq, Hash, PartialOrd, Ord, Default";
const OPTION_STRINGS: &[&str] = &[LONG_OPTION, "a_very_long_prefix_that_goes_on_and_on_and_on_and_on_and_on_and_on_and_on_and_on_and_on_and_on_and_on_and_on_and_on_and_on_and_on_and_on_and_on_and_on_and_on_and_on_and_on_and_on_and_on_and_on_and_on_and_on_and_on_and_on_and_on_and_on_and_on_and_on_and_on_", "é", "K", "", "Debug", "Serialize, Deserialize", "Serialize, Deserialize, Debug, Clone, PartialEq", "a\"b", "x\ny", "\\", "@", "attr_", "$value", "#text", "$text", "ünï", " ", "@@", "{}", "text", "a_b"];

pub fn check_c10(case: &HistoryCase, rep: &mut Report) {
    crate::report::journal_enter(|| case.to_json());
    rep.evaluations += 1;
    let texts = case.texts();
    let tree = match guarded(|| real::run_history(&texts, &case.kinds, Cfg::default())) {
        Ok(Ok(t)) => t,
        Ok(Err((i, e))) => {
            rep.violation("run-failed", format!("document {} rejected: {}", i + 1, e), case.to_json());
            return;
        }
        Err(p) => {
            rep.violation("panic", p, case.to_json());
            return;
        }
    };
    let mut r = Rng::new(fnv64(texts.concat().as_bytes()));
    let mut sent: Vec<String> = Vec::new();
    for sorted in [false, true] {
        match guarded(|| tree.to_serde_struct(&real::opts(S_PREFIX, S_TEXT, S_DERIVE, sorted))) {
            Ok(s) => sent.push(s),
            Err(p) => {
                rep.violation("panic", p, case.to_json());
                return;
            }
        }
    }
    // every struct carries the derive attribute exactly once (counted, not tied to a layout)
    let n_structs = sent[0].lines().filter(|l| l.trim_start().starts_with("pub struct ")).count();
    let derive_line = format!("#[derive({})]", S_DERIVE);
    let n_derive = sent[0].lines().filter(|l| l.trim() == derive_line).count();
    if n_structs != n_derive || sent[0].matches(S_DERIVE).count() != n_structs {
        rep.violation(
            "options:derive-not-on-every-struct",
            format!("{} structs but {} derive attributes carrying the derive string\n{}", n_structs, n_derive, sent[0]),
            case.to_json(),
        );
        return;
    }
    rep.nontrivial.insert(fnv64(sent[0].as_bytes()));
    // (ident, name) pairs of attributes, to aim a prefix at `prefix + name == identifier`
    let mut attr_pairs: Vec<(String, String)> = Vec::new();
    {
        let lines: Vec<&str> = sent[0].split('\n').collect();
        let ap = format!("    #[serde(rename = \"{}", S_PREFIX);
        for (i, l) in lines.iter().enumerate() {
            if let Some(rest) = l.strip_prefix(ap.as_str()) {
                if let (Some(name), Some(f)) = (rest.strip_suffix("\")]"), lines.get(i + 1)) {
                    if let Some(id) = f.strip_prefix("    pub ").and_then(|f| f.split(": ").next()) {
                        attr_pairs.push((id.to_string(), name.to_string()));
                    }
                }
            }
        }
    }
    rep.add("attribute_fields_seen", attr_pairs.len() as u64);
    let mut option_sets: Vec<(String, String, String, bool, &'static str)> = vec![
        ("Serialize, Deserialize".into(), "@".into(), "$text".into(), false, "quick-xml preset"),
        ("Serialize, Deserialize".into(), "".into(), "$text".into(), false, "serde-xml-rs preset"),
    ];
    for _ in 0..4 {
        option_sets.push((
            r.pick(OPTION_STRINGS).to_string(),
            r.pick(OPTION_STRINGS).to_string(),
            r.pick(OPTION_STRINGS).to_string(),
            r.chance(1, 2),
            "random strings",
        ));
    }
    if !attr_pairs.is_empty() {
        // a prefix that makes some attribute's bound name equal to its identifier
        let (id, name) = r.pick(&attr_pairs).clone();
        if let Some(pre) = id.strip_suffix(name.as_str()) {
            option_sets.push(("Debug".into(), pre.to_string(), "$text".into(), r.chance(1, 2), "prefix aimed at identifier"));
            rep.count("prefixes_aimed_at_identifier");
        }
    }
    for (d, p, t, sorted, what) in option_sets {
        let o = match what {
            "quick-xml preset" => Options::quick_xml_de(),
            "serde-xml-rs preset" => Options::serde_xml_rs(),
            _ => real::opts(&p, &t, &d, sorted),
        };
        // a preset may bind attributes / text to whatever the target parser wants; what the property
        // demands is that it changes nothing else: judge it by its own field values, unsorted
        let (d, p, t, sorted) = if what.ends_with("preset") {
            if !matches!(o.sort, SortBy::Unsorted) {
                rep.count("presets_that_request_sorting");
            }
            (o.derive.clone(), o.attribute_prefix.clone(), o.text_identifier.clone(), false)
        } else {
            (d, p, t, sorted)
        };
        let got = match guarded(|| tree.to_serde_struct(&o)) {
            Ok(s) => s,
            Err(pn) => {
                rep.violation("panic", pn, case.to_json());
                return;
            }
        };
        let want = match transform(&sent[sorted as usize], &d, &p, &t) {
            Ok(w) => w,
            Err(e) => {
                rep.inconclusive(&hist::short(&e));
                return;
            }
        };
        rep.count("option_sets_compared");
        if got != want {
            let sig = if d.is_empty() && got.contains("#[derive(") {
                "options:empty-derive-emitted"
            } else if got.replace("#[derive(", "") .len() != got.len() && !got.contains(&format!("#[derive({})]", d)) {
                "options:derive-not-verbatim"
            } else {
                "options:output-differs-from-substitution"
            };
            let mut c = case.to_json();
            if let Some(ob) = c.as_object_mut() {
                ob.insert("options".into(), json!({"derive": d, "prefix": p, "text": t, "sorted": sorted}));
            }
            rep.violation(
                sig,
                format!(
                    "options derive={:?} prefix={:?} text={:?} sorted={} ({}): output is not the sentinel rendering with the three strings substituted\nexpected:\n{}\ngot:\n{}",
                    d, p, t, sorted, what, want, got
                ),
                c,
            );
            return;
        }
    }
    // the derive builder reproduces any string verbatim (repeated traits, odd spacing)
    for d in ["Debug, Clone, Debug", "Serialize,Deserialize , Debug", "A, A, A, B", " X ", ""] {
        let o = Options::serde_xml_rs().derive(d);
        if o.derive != d {
            rep.violation(
                "options:derive-builder-not-verbatim",
                format!("Options::derive({:?}) stored {:?}", d, o.derive),
                case.to_json(),
            );
            return;
        }
    }
    let b = Options::quick_xml_de().derive("X, Y");
    if b.derive != "X, Y" || b.attribute_prefix != "@" || b.text_identifier != "$text" {
        rep.violation("options:derive-builder", "Options::derive() changed something else than derive".into(), case.to_json());
    }
    if rep.samples.len() < 2 && rep.evaluations % 37 == 5 {
        rep.sample(json!({"documents": texts, "sentinel_rendering": sent[0]}));
    }
}

pub fn run_c10(thorough: bool, seed: u64, shards: usize) -> (Report, String) {
    let n: u64 = if thorough { 8_000_000 } else { 320_000 };
    let th10 = hist::threshold_and_magnitude_light(seed, thorough);
    let rep = crate::report::sharded(shards, |shard| {
        let mut rep = Report::new();
        let per = n / shards as u64;
        for (i, c) in th10.iter().enumerate() {
            if i % shards == shard {
                check_c10(c, &mut rep);
                rep.count("threshold_cases");
            }
        }
        for k in 0..per {
            let idx = shard as u64 * per + k;
            let case = match k % 3 {
                0 => hist::random_case(seed, "C10", idx, Mix::Names),
                1 => hist::random_case(seed, "C10", idx, Mix::Schema),
                _ => collide_case(seed, "C10", idx),
            };
            check_c10(&case, &mut rep);
        }
        rep
    });
    // the command-line mapping of --parser / --derive / --sort onto Options (src/args.rs is one of the
    // anchors): a slice of runs of the real binary on valid inputs, compared with the library rendering
    let mut rep = rep;
    let n_cli: u64 = if thorough { 4_000 } else { 480 };
    match crate::cli::build_binary() {
        Ok(bin) => {
            let work = crate::report::out_dir().join("work").join(format!("c10-{}", std::process::id()));
            let _ = std::fs::create_dir_all(&work);
            let sub = crate::report::sharded(shards, |shard| {
                let mut r = Report::new();
                let per = n_cli / shards as u64;
                for k in 0..per {
                    let idx = 7_000_000 + shard as u64 * per + k;
                    let mut c = crate::cli::gen_cli_case(seed, idx, false);
                    if c.input_kind != crate::cli::InputKind::Valid {
                        continue;
                    }
                    if !matches!(c.output, crate::cli::OutputKind::Stdout | crate::cli::OutputKind::NewFile) {
                        c.output = crate::cli::OutputKind::Stdout;
                    }
                    crate::cli::check_cli(&bin, &work, &c, idx, &mut r);
                }
                r
            });
            let _ = std::fs::remove_dir_all(&work);
            rep.add("cli_runs_comparing_option_mapping", sub.evaluations);
            for v in sub.violations {
                let n = sub.violation_counts.get(&v.sig).copied().unwrap_or(1);
                let sig = format!("options-via-cli:{}", v.sig);
                rep.violation(&sig, v.detail, v.case);
                *rep.violation_counts.entry(sig).or_insert(0) += n.saturating_sub(1);
            }
            rep.inconclusive += sub.inconclusive;
        }
        Err(e) => rep.notes.push(format!("CLI slice of C10 not run: {}", e)),
    }
    let rule = format!(
        "{} trees parsed from random histories (adversarial names, general, collision profile); each rendered with private-use sentinel strings for derive / attribute prefix / text identifier under both sort orders, then under 6-7 option sets (both presets, random hostile strings incl. empty, quotes, newline, backslash, and a prefix aimed at making prefix+name equal the field identifier); every output must equal the sentinel rendering with the strings substituted, the derive line dropped when empty and an attribute rename dropped exactly when prefix+name equals the identifier. Plus {} runs of the real binary on valid inputs over the --parser x --derive x --sort matrix, compared with the library rendering for independently mapped options. Distinct: sentinel rendering bytes.",
        n, n_cli
    );
    (rep, rule)
}

pub fn replay(property: &str, case: &Value, rep: &mut Report) -> Result<(), String> {
    let hc = HistoryCase::from_json(case).ok_or("cannot decode history case")?;
    match property {
        "C05" => {
            check_c05(&hc, 64, 4, rep);
            Ok(())
        }
        "C06" => {
            check_c06(&hc, rep);
            Ok(())
        }
        "C10" => {
            check_c10(&hc, rep);
            Ok(())
        }
        "C11" => {
            check_c11(&hc, rep);
            Ok(())
        }
        _ => Err("not a relational property".into()),
    }
}
