//! Run report, evidence writer, known-findings handling and the exit protocol.

use std::collections::{BTreeMap, HashSet};
use std::path::{Path, PathBuf};
use std::time::Instant;

use serde_json::{json, Value};

pub const VERIF: &str = "/verif";

/// where a run writes (evidence, replays, scratch, build output of generated programs). Always /verif
/// for registered checks; tools/altcheck.sh points it elsewhere so that seeded changes can be tried on
/// scratch copies of the repository while /repo stays untouched.
pub fn out_dir() -> PathBuf {
    match std::env::var("XSG_OUT") {
        Ok(p) if !p.is_empty() => PathBuf::from(p),
        _ => PathBuf::from(VERIF),
    }
}

/// the repository whose binary is built for the CLI checks (the library is linked at build time)
pub fn repo_dir() -> PathBuf {
    match std::env::var("XSG_REPO") {
        Ok(p) if !p.is_empty() => PathBuf::from(p),
        _ => PathBuf::from("/repo"),
    }
}

#[derive(Clone, Debug)]
pub struct Violation {
    pub sig: String,
    pub detail: String,
    /// literal case, enough to re-run it
    pub case: Value,
}

#[derive(Debug, Default)]
pub struct Report {
    pub evaluations: u64,
    pub nontrivial: HashSet<u64>,
    /// non-trivial cases that are distinct by construction (enumerations): counted, not hashed
    pub nontrivial_enumerated: u64,
    pub counters: BTreeMap<String, u64>,
    pub samples: Vec<Value>,
    pub violations: Vec<Violation>,
    pub violation_counts: BTreeMap<String, u64>,
    pub inconclusive: u64,
    pub inconclusive_reasons: BTreeMap<String, u64>,
    pub skipped_precondition: u64,
    pub notes: Vec<String>,
}

impl Report {
    pub fn new() -> Report {
        Report::default()
    }
    pub fn count(&mut self, key: &str) {
        *self.counters.entry(key.to_string()).or_insert(0) += 1;
    }
    pub fn add(&mut self, key: &str, n: u64) {
        *self.counters.entry(key.to_string()).or_insert(0) += n;
    }
    pub fn max(&mut self, key: &str, n: u64) {
        let e = self.counters.entry(key.to_string()).or_insert(0);
        if n > *e {
            *e = n;
        }
    }
    pub fn sample(&mut self, v: Value) {
        if self.samples.len() < 4 {
            self.samples.push(v);
        }
    }
    pub fn inconclusive(&mut self, reason: &str) {
        self.inconclusive += 1;
        *self.inconclusive_reasons.entry(reason.to_string()).or_insert(0) += 1;
    }
    pub fn violation(&mut self, sig: &str, detail: String, case: Value) {
        let c = self.violation_counts.entry(sig.to_string()).or_insert(0);
        *c += 1;
        if *c == 1 {
            self.violations.push(Violation {
                sig: sig.to_string(),
                detail,
                case,
            });
        }
    }
    pub fn merge(&mut self, other: Report) {
        self.evaluations += other.evaluations;
        self.nontrivial.extend(other.nontrivial);
        self.nontrivial_enumerated += other.nontrivial_enumerated;
        for (k, v) in other.counters {
            if k.starts_with("max_") {
                self.max(&k, v);
            } else {
                self.add(&k, v);
            }
        }
        for s in other.samples {
            self.sample(s);
        }
        for v in other.violations {
            if !self.violations.iter().any(|x| x.sig == v.sig) {
                self.violations.push(v);
            }
        }
        for (k, v) in other.violation_counts {
            *self.violation_counts.entry(k).or_insert(0) += v;
        }
        self.inconclusive += other.inconclusive;
        for (k, v) in other.inconclusive_reasons {
            *self.inconclusive_reasons.entry(k).or_insert(0) += v;
        }
        self.skipped_precondition += other.skipped_precondition;
        self.notes.extend(other.notes);
    }
}

/// run `n_shards` closures on threads and merge their reports
pub fn sharded<F>(n_shards: usize, f: F) -> Report
where
    F: Fn(usize) -> Report + Sync,
{
    let mut total = Report::new();
    std::thread::scope(|s| {
        let handles: Vec<_> = (0..n_shards)
            .map(|i| {
                let f = &f;
                std::thread::Builder::new()
                    .stack_size(64 << 20)
                    .spawn_scoped(s, move || f(i))
                    .expect("spawn shard")
            })
            .collect();
        for h in handles {
            match h.join() {
                Ok(r) => total.merge(r),
                Err(p) => {
                    let msg = p
                        .downcast_ref::<String>()
                        .cloned()
                        .or_else(|| p.downcast_ref::<&str>().map(|s| s.to_string()))
                        .unwrap_or_else(|| "?".into());
                    total.notes.push(format!("shard panicked outside a monitored call: {}", msg));
                    total.inconclusive(&format!("harness shard panic: {}", msg));
                    total.counters.insert("harness_panics".into(), 1);
                }
            }
        }
    });
    total
}

// ---------------------------------------------------------------------------------------
// known findings
// ---------------------------------------------------------------------------------------

#[derive(Clone, Debug)]
pub struct Finding {
    pub property: String,
    pub sig: String,
    pub witness: String,
    pub what: String,
}

pub fn load_findings(property: &str) -> Vec<Finding> {
    let path = Path::new(VERIF).join("known_findings.txt");
    let text = std::fs::read_to_string(path).unwrap_or_default();
    let mut out = Vec::new();
    for line in text.lines() {
        let line = line.trim();
        if !line.starts_with("finding:") {
            continue;
        }
        let (head, what) = match line.split_once(" :: ") {
            Some(x) => x,
            None => continue,
        };
        let mut prop = String::new();
        let mut sig = String::new();
        let mut witness = String::new();
        for tok in head["finding:".len()..].split_whitespace() {
            if let Some(v) = tok.strip_prefix("property=") {
                prop = v.to_string();
            } else if let Some(v) = tok.strip_prefix("sig=") {
                sig = v.to_string();
            } else if let Some(v) = tok.strip_prefix("witness=") {
                witness = v.to_string();
            }
        }
        if prop == property {
            out.push(Finding {
                property: prop,
                sig,
                witness,
                what: what.to_string(),
            });
        }
    }
    out
}

// ---------------------------------------------------------------------------------------
// finishing a run
// ---------------------------------------------------------------------------------------

pub struct RunMeta {
    pub property: String,
    pub tier: String,
    pub seed: u64,
    pub rule: String,
    pub assumptions: Vec<String>,
    pub exhaustive: bool,
    /// minimum number of distinct non-trivial cases below which the run is inconclusive
    pub floor_nontrivial: u64,
    pub extra: Value,
    pub started: Instant,
}

fn sanitize(sig: &str) -> String {
    let mut s: String = sig
        .chars()
        .map(|c| if c.is_ascii_alphanumeric() || c == '-' || c == '_' { c } else { '_' })
        .collect();
    if s.len() > 60 {
        s.truncate(60);
    }
    format!("{}-{:08x}", s, crate::gen::fnv64(sig.as_bytes()) as u32)
}

pub fn write_replay(property: &str, v: &Violation) -> PathBuf {
    let dir = out_dir().join("replays").join(property);
    let _ = std::fs::create_dir_all(&dir);
    let path = dir.join(format!("{}.json", sanitize(&v.sig)));
    let body = json!({"property": property, "sig": v.sig, "detail": v.detail, "case": v.case});
    let _ = std::fs::write(&path, serde_json::to_string_pretty(&body).unwrap());
    path
}

/// Apply the known-findings protocol, write the evidence file, print the verdict lines and
/// return the process exit code. `witness_sigs` are the signatures that the committed witnesses of
/// the listed findings produced when replayed in this run.
pub fn finish(meta: RunMeta, report: Report, findings: &[Finding], witness_sigs: &[(Finding, Vec<String>)]) -> i32 {
    let listed: HashSet<&str> = findings.iter().map(|f| f.sig.as_str()).collect();
    let mut exit = 0;
    let mut unlisted = 0u64;
    let mut known_hits = 0u64;

    for (f, sigs) in witness_sigs {
        if sigs.iter().any(|s| *s == f.sig) {
            println!("KNOWN-FINDING: property={} sig={} {}", f.property, f.sig, f.what);
        } else {
            println!(
                "NOTE: listed finding sig={} did not reproduce on its witness {} (observed: {:?})",
                f.sig, f.witness, sigs
            );
        }
        // a witness may also show unlisted violations: those raise
        for s in sigs {
            if !listed.contains(s.as_str()) {
                // reported through the report by the caller (it merges witness violations)
            }
        }
    }

    for v in &report.violations {
        let n = report.violation_counts.get(&v.sig).copied().unwrap_or(1);
        if listed.contains(v.sig.as_str()) {
            known_hits += n;
            continue;
        }
        unlisted += n;
        let path = write_replay(&meta.property, v);
        println!("VIOLATION property={} replay={}", meta.property, path.display());
        println!("  signature: {} ({} case(s))", v.sig, n);
        for l in v.detail.lines().take(40) {
            println!("  {}", l);
        }
        exit = 1;
    }

    let distinct = report.nontrivial.len() as u64 + report.nontrivial_enumerated;
    let mut inconclusive_run = false;
    if exit == 0 {
        if report.counters.get("harness_panics").copied().unwrap_or(0) > 0 {
            println!("INCONCLUSIVE: a harness shard panicked outside a monitored call: {:?}", report.notes);
            inconclusive_run = true;
        } else if report.inconclusive * 200 > report.evaluations.max(1) {
            println!(
                "INCONCLUSIVE: {} of {} cases could not be judged: {:?}",
                report.inconclusive, report.evaluations, report.inconclusive_reasons
            );
            inconclusive_run = true;
        } else if distinct < meta.floor_nontrivial {
            println!(
                "INCONCLUSIVE: only {} distinct non-trivial cases observed (floor {}), inconclusive cases: {} {:?}",
                distinct, meta.floor_nontrivial, report.inconclusive, report.inconclusive_reasons
            );
            inconclusive_run = true;
        }
    }
    if inconclusive_run {
        exit = 2;
    }

    let mut coverage = json!({
        "evaluations": report.evaluations,
        "distinct_nontrivial": distinct,
        "rule": meta.rule,
        "samples": report.samples,
        "observed": report.counters,
        "inconclusive_cases": report.inconclusive,
        "inconclusive_reasons": report.inconclusive_reasons,
        "skipped_outside_precondition": report.skipped_precondition,
        "violations_unlisted": unlisted,
        "violations_matching_known_findings": known_hits,
        "violation_signatures": report.violation_counts,
        "exhaustive": meta.exhaustive,
    });
    if let (Some(c), Some(e)) = (coverage.as_object_mut(), meta.extra.as_object()) {
        for (k, v) in e {
            c.insert(k.clone(), v.clone());
        }
    }
    let evidence = json!({
        "property_id": meta.property,
        "tier": meta.tier,
        "seed": meta.seed,
        "level": "exploration",
        "coverage": coverage,
        "assumptions": meta.assumptions,
        "wall_s": meta.started.elapsed().as_secs_f64(),
        "violations": unlisted,
        "verdict": if exit == 1 { "violated" } else if exit == 2 { "inconclusive" } else { "held on what was observed" },
        "notes": report.notes,
    });
    let dir = out_dir().join("evidence");
    let _ = std::fs::create_dir_all(&dir);
    let path = dir.join(format!("{}.json", meta.property));
    std::fs::write(&path, serde_json::to_string_pretty(&evidence).unwrap()).expect("write evidence");

    println!(
        "{} tier={} seed={} evaluations={} distinct_nontrivial={} inconclusive={} known-hits={} unlisted-violations={} wall={:.1}s",
        meta.property,
        meta.tier,
        meta.seed,
        report.evaluations,
        distinct,
        report.inconclusive,
        known_hits,
        unlisted,
        meta.started.elapsed().as_secs_f64()
    );
    exit
}
