//! Run report, evidence writer, known-findings handling and the exit protocol.

use std::collections::{BTreeMap, HashSet};
use std::path::{Path, PathBuf};
use std::time::Instant;

use serde_json::{json, Value};

pub const VERIF: &str = "/verif";

/// where a run writes (evidence, replays, scratch, build output of generated programs). Always /verif
/// for registered checks; tools/altcheck.sh points it elsewhere so that seeded changes can be tried on
/// scratch copies of the repository while /repo stays untouched.
pub fn out_dir() -> PathBuf {
    match std::env::var("XSG_OUT") {
        Ok(p) if !p.is_empty() => PathBuf::from(p),
        _ => PathBuf::from(VERIF),
    }
}

/// the repository whose binary is built for the CLI checks (the library is linked at build time)
pub fn repo_dir() -> PathBuf {
    match std::env::var("XSG_REPO") {
        Ok(p) if !p.is_empty() => PathBuf::from(p),
        _ => PathBuf::from("/repo"),
    }
}

#[derive(Clone, Debug)]
pub struct Violation {
    pub sig: String,
    pub detail: String,
    /// literal case, enough to re-run it
    pub case: Value,
}

#[derive(Debug, Default)]
pub struct Report {
    pub evaluations: u64,
    pub nontrivial: HashSet<u64>,
    /// non-trivial cases that are distinct by construction (enumerations): counted, not hashed
    pub nontrivial_enumerated: u64,
    pub counters: BTreeMap<String, u64>,
    pub samples: Vec<Value>,
    pub violations: Vec<Violation>,
    pub violation_counts: BTreeMap<String, u64>,
    pub inconclusive: u64,
    pub inconclusive_reasons: BTreeMap<String, u64>,
    pub skipped_precondition: u64,
    pub notes: Vec<String>,
}

impl Report {
    pub fn new() -> Report {
        Report::default()
    }
    pub fn count(&mut self, key: &str) {
        *self.counters.entry(key.to_string()).or_insert(0) += 1;
    }
    pub fn add(&mut self, key: &str, n: u64) {
        *self.counters.entry(key.to_string()).or_insert(0) += n;
    }
    pub fn max(&mut self, key: &str, n: u64) {
        let e = self.counters.entry(key.to_string()).or_insert(0);
        if n > *e {
            *e = n;
        }
    }
    pub fn sample(&mut self, v: Value) {
        if self.samples.len() < 4 {
            self.samples.push(v);
        }
    }
    pub fn inconclusive(&mut self, reason: &str) {
        self.inconclusive += 1;
        *self.inconclusive_reasons.entry(reason.to_string()).or_insert(0) += 1;
    }
    pub fn violation(&mut self, sig: &str, detail: String, case: Value) {
        let c = self.violation_counts.entry(sig.to_string()).or_insert(0);
        *c += 1;
        if *c == 1 {
            self.violations.push(Violation {
                sig: sig.to_string(),
                detail,
                case,
            });
        }
    }
    pub fn merge(&mut self, other: Report) {
        self.evaluations += other.evaluations;
        self.nontrivial.extend(other.nontrivial);
        self.nontrivial_enumerated += other.nontrivial_enumerated;
        for (k, v) in other.counters {
            if k.starts_with("max_") {
                self.max(&k, v);
            } else {
                self.add(&k, v);
            }
        }
        for s in other.samples {
            self.sample(s);
        }
        for v in other.violations {
            if !self.violations.iter().any(|x| x.sig == v.sig) {
                self.violations.push(v);
            }
        }
        for (k, v) in other.violation_counts {
            *self.violation_counts.entry(k).or_insert(0) += v;
        }
        self.inconclusive += other.inconclusive;
        for (k, v) in other.inconclusive_reasons {
            *self.inconclusive_reasons.entry(k).or_insert(0) += v;
        }
        self.skipped_precondition += other.skipped_precondition;
        self.notes.extend(other.notes);
    }
}

// ---------------------------------------------------------------------------------------
// Sharding: threads, or journalled child processes (process isolation)
// ---------------------------------------------------------------------------------------
//
// With isolation on, every shard of a `sharded` call runs in its own child process
// (`xsgmon shard-run <property> <tier> <seed> <call-no> <shard> <journal>`) under an address-space
// limit and a no-progress watchdog. Before each case the child writes the literal case to its journal,
// so a child that dies (stack overflow, abort, out of memory, signal) or wedges pins the case that did
// it; the parent re-runs that case alone to confirm before it raises.

use std::sync::atomic::{AtomicBool, AtomicU64, AtomicUsize, Ordering};
use std::sync::{Mutex, OnceLock};

pub static RUN_ARGS: OnceLock<(String, String, u64)> = OnceLock::new();
static CHILD_MODE: OnceLock<(usize, usize)> = OnceLock::new();
static ISOLATE: AtomicBool = AtomicBool::new(false);
static CALL_NO: AtomicUsize = AtomicUsize::new(0);
static JOURNAL: Mutex<Option<std::fs::File>> = Mutex::new(None);
pub static PROGRESS: AtomicU64 = AtomicU64::new(0);
pub static SHARD_DONE: AtomicBool = AtomicBool::new(false);

pub fn set_isolation(on: bool) {
    ISOLATE.store(on, Ordering::Relaxed);
}

/// (call number, shard) when this process is a shard child
pub fn child_mode() -> Option<(usize, usize)> {
    CHILD_MODE.get().copied()
}

pub fn enter_child_mode(call_no: usize, shard: usize, journal: &str) {
    let _ = CHILD_MODE.set((call_no, shard));
    if let Ok(f) = std::fs::OpenOptions::new().create(true).write(true).truncate(true).open(journal) {
        *JOURNAL.lock().unwrap() = Some(f);
    }
}

/// record the literal case about to be executed (child processes only; free otherwise)
pub fn journal_enter(case: impl FnOnce() -> serde_json::Value) {
    if CHILD_MODE.get().is_none() {
        return;
    }
    PROGRESS.fetch_add(1, Ordering::Relaxed);
    if let Ok(mut g) = JOURNAL.lock() {
        if let Some(f) = g.as_mut() {
            use std::io::{Seek, Write};
            let text = serde_json::to_vec(&json!({"case": case()})).unwrap_or_default();
            let _ = f.seek(std::io::SeekFrom::Start(0));
            let _ = f.write_all(&text);
            let _ = f.set_len(text.len() as u64);
        }
    }
}

fn run_on_big_stack<F: FnOnce() -> Report + Send>(f: F) -> Report {
    std::thread::scope(|s| {
        match std::thread::Builder::new().stack_size(64 << 20).spawn_scoped(s, f).expect("spawn shard").join() {
            Ok(r) => r,
            Err(p) => {
                let msg = p
                    .downcast_ref::<String>()
                    .cloned()
                    .or_else(|| p.downcast_ref::<&str>().map(|s| s.to_string()))
                    .unwrap_or_else(|| "?".into());
                let mut r = Report::new();
                r.notes.push(format!("shard panicked outside a monitored call: {}", msg));
                r.inconclusive(&format!("harness shard panic: {}", msg));
                r.counters.insert("harness_panics".into(), 1);
                r
            }
        }
    })
}

impl Report {
    pub fn to_child_json(&self, hashes_path: &str) -> serde_json::Value {
        let mut bytes: Vec<u8> = Vec::with_capacity(self.nontrivial.len() * 8);
        for h in self.nontrivial.iter() {
            bytes.extend_from_slice(&h.to_le_bytes());
        }
        let _ = std::fs::write(hashes_path, bytes);
        json!({
            "evaluations": self.evaluations,
            "nontrivial_file": hashes_path,
            "nontrivial_enumerated": self.nontrivial_enumerated,
            "counters": self.counters,
            "samples": self.samples,
            "violations": self.violations.iter().map(|v| json!({"sig": v.sig, "detail": v.detail, "case": v.case, "n": self.violation_counts.get(&v.sig)})).collect::<Vec<_>>(),
            "inconclusive": self.inconclusive,
            "inconclusive_reasons": self.inconclusive_reasons,
            "skipped_precondition": self.skipped_precondition,
            "notes": self.notes,
        })
    }
    pub fn merge_child_json(&mut self, v: &serde_json::Value) {
        self.evaluations += v["evaluations"].as_u64().unwrap_or(0);
        self.nontrivial_enumerated += v["nontrivial_enumerated"].as_u64().unwrap_or(0);
        if let Some(f) = v["nontrivial_file"].as_str() {
            if let Ok(bytes) = std::fs::read(f) {
                for ch in bytes.chunks_exact(8) {
                    self.nontrivial.insert(u64::from_le_bytes(ch.try_into().unwrap()));
                }
            }
            let _ = std::fs::remove_file(f);
        }
        if let Some(o) = v["counters"].as_object() {
            for (k, n) in o {
                let n = n.as_u64().unwrap_or(0);
                if k.starts_with("max_") {
                    self.max(k, n);
                } else {
                    self.add(k, n);
                }
            }
        }
        if let Some(a) = v["samples"].as_array() {
            for s in a {
                self.sample(s.clone());
            }
        }
        if let Some(a) = v["violations"].as_array() {
            for x in a {
                let n = x["n"].as_u64().unwrap_or(1);
                let sig = x["sig"].as_str().unwrap_or("?").to_string();
                self.violation(&sig, x["detail"].as_str().unwrap_or("").to_string(), x["case"].clone());
                if n > 1 {
                    *self.violation_counts.entry(sig).or_insert(0) += n - 1;
                }
            }
        }
        self.inconclusive += v["inconclusive"].as_u64().unwrap_or(0);
        if let Some(o) = v["inconclusive_reasons"].as_object() {
            for (k, n) in o {
                *self.inconclusive_reasons.entry(k.clone()).or_insert(0) += n.as_u64().unwrap_or(0);
            }
        }
        self.skipped_precondition += v["skipped_precondition"].as_u64().unwrap_or(0);
        if let Some(a) = v["notes"].as_array() {
            for n in a {
                if let Some(t) = n.as_str() {
                    self.notes.push(t.to_string());
                }
            }
        }
    }
}

fn private_exe_copy(work: &Path) -> PathBuf {
    let dst = work.join("xsgmon-copy");
    if !dst.exists() {
        if let Ok(src) = std::env::current_exe() {
            let _ = std::fs::create_dir_all(work);
            if std::fs::copy(&src, &dst).is_err() {
                return src;
            }
        }
    }
    dst
}

/// re-run one journalled case alone, in a fresh process, through `--replay`
fn confirm_case(exe: &Path, property: &str, journal: &Path) -> (String, Option<String>) {
    let mut outcomes = Vec::new();
    let mut proper_violation = None;
    for _ in 0..2 {
        match std::process::Command::new(exe)
            .arg(property)
            .arg("--replay")
            .arg(journal)
            .env("XSG_CHILD_LIMITS", "60")
            .stdout(std::process::Stdio::piped())
            .stderr(std::process::Stdio::piped())
            .output()
        {
            Ok(o) => {
                let out = String::from_utf8_lossy(&o.stdout).to_string();
                if o.status.code() == Some(1) && out.contains("VIOLATION") && proper_violation.is_none() {
                    proper_violation = Some(out.lines().take(30).collect::<Vec<_>>().join("\n"));
                }
                outcomes.push(format!("{:?}", o.status));
            }
            Err(e) => outcomes.push(format!("spawn failed: {}", e)),
        }
    }
    (outcomes.join(", "), proper_violation)
}

/// run `n_shards` closures (threads, or isolated child processes) and merge their reports
pub fn sharded<F>(n_shards: usize, f: F) -> Report
where
    F: Fn(usize) -> Report + Sync,
{
    let call_no = CALL_NO.fetch_add(1, Ordering::Relaxed);
    if let Some((c, shard)) = child_mode() {
        // this process IS one shard of one call
        if c != call_no {
            return Report::new();
        }
        let r = run_on_big_stack(|| f(shard));
        SHARD_DONE.store(true, Ordering::Relaxed);
        return r;
    }
    if !ISOLATE.load(Ordering::Relaxed) || RUN_ARGS.get().is_none() {
        return sharded_threads(n_shards, f);
    }
    let (property, tier, seed) = RUN_ARGS.get().cloned().unwrap();
    let work = out_dir().join("work").join(format!("{}-shards-{}-{}", property.to_lowercase(), std::process::id(), call_no));
    let _ = std::fs::create_dir_all(&work);
    let exe = private_exe_copy(&work);
    let mut total = Report::new();
    let mut kids = Vec::new();
    for i in 0..n_shards {
        let journal = work.join(format!("shard-{}.journal", i));
        let child = std::process::Command::new(&exe)
            .arg("shard-run")
            .arg(&property)
            .arg(&tier)
            .arg(seed.to_string())
            .arg(call_no.to_string())
            .arg(i.to_string())
            .arg(&journal)
            .stdout(std::process::Stdio::piped())
            .stderr(std::process::Stdio::piped())
            .spawn();
        match child {
            Ok(c) => kids.push((i, journal, c)),
            Err(e) => total.inconclusive(&format!("cannot spawn shard process: {}", e)),
        }
    }
    for (i, journal, child) in kids {
        let out = match child.wait_with_output() {
            Ok(o) => o,
            Err(e) => {
                total.inconclusive(&format!("shard {} wait failed: {}", i, e));
                continue;
            }
        };
        let stdout = String::from_utf8_lossy(&out.stdout).to_string();
        let mut got = false;
        for line in stdout.lines() {
            if let Some(r) = line.strip_prefix("REPORT ") {
                if let Ok(v) = serde_json::from_str::<serde_json::Value>(r) {
                    total.merge_child_json(&v);
                    got = true;
                }
            }
        }
        if out.status.success() && got {
            let _ = std::fs::remove_file(&journal);
            continue;
        }
        // the shard died or wedged: its journal holds the case it was running
        total.add("shard_processes_that_died", 1);
        if total.counters.get("shard_processes_that_died").copied().unwrap_or(0) > 3 {
            // three dead shards have been examined one by one; the others are only counted
            total.notes.push(format!("shard process {} also ended with {:?} (not re-run)", i, out.status));
            continue;
        }
        let hang = stdout.contains("HANG");
        let stderr_tail: String = String::from_utf8_lossy(&out.stderr).lines().rev().take(5).collect::<Vec<_>>().join(" | ");
        let case: Option<serde_json::Value> = std::fs::read_to_string(&journal).ok().and_then(|t| serde_json::from_str::<serde_json::Value>(&t).ok()).map(|v| v["case"].clone());
        match case {
            Some(case) => {
                let (outcomes, proper) = confirm_case(&exe, &property, &journal);
                let reproduces = !outcomes.contains("spawn failed") && !outcomes.contains("exit status: 0") && !outcomes.contains("exit status: 2");
                if let Some(p) = proper {
                    total.violation("process:died-in-batch-violation-alone", format!("shard {} ended with {:?}; the journalled case alone gives:\n{}", i, out.status, p), case);
                } else if reproduces {
                    total.violation(
                        if hang { "process:no-return" } else { "process:died" },
                        format!(
                            "shard process {} ended with {:?}{} while running the journalled case; re-running that case alone in a fresh process (4 GiB address space, 120 s no-progress watchdog): {}\nstderr: {}",
                            i,
                            out.status,
                            if hang { " (no-progress watchdog)" } else { "" },
                            outcomes,
                            stderr_tail
                        ),
                        case,
                    );
                } else {
                    total.inconclusive(&format!("a shard process died ({:?}) but its journalled case does not reproduce alone ({})", out.status, outcomes));
                }
            }
            None => total.inconclusive(&format!("shard process {} died without a readable journal: {:?} {}", i, out.status, stderr_tail)),
        }
    }
    let _ = std::fs::remove_dir_all(&work);
    total
}

pub fn sharded_threads<F>(n_shards: usize, f: F) -> Report
where
    F: Fn(usize) -> Report + Sync,
{
    let mut total = Report::new();
    std::thread::scope(|s| {
        let handles: Vec<_> = (0..n_shards)
            .map(|i| {
                let f = &f;
                std::thread::Builder::new()
                    .stack_size(64 << 20)
                    .spawn_scoped(s, move || f(i))
                    .expect("spawn shard")
            })
            .collect();
        for h in handles {
            match h.join() {
                Ok(r) => total.merge(r),
                Err(p) => {
                    let msg = p
                        .downcast_ref::<String>()
                        .cloned()
                        .or_else(|| p.downcast_ref::<&str>().map(|s| s.to_string()))
                        .unwrap_or_else(|| "?".into());
                    total.notes.push(format!("shard panicked outside a monitored call: {}", msg));
                    total.inconclusive(&format!("harness shard panic: {}", msg));
                    total.counters.insert("harness_panics".into(), 1);
                }
            }
        }
    });
    total
}

/// address-space limit and no-progress watchdog of a shard / replay child
pub fn apply_child_limits() {
    let limit_s: u64 = std::env::var("XSG_CHILD_LIMITS").ok().and_then(|v| v.parse().ok()).unwrap_or(120);
    unsafe {
        let lim = libc::rlimit { rlim_cur: 4 << 30, rlim_max: 4 << 30 };
        libc::setrlimit(libc::RLIMIT_AS, &lim);
    }
    std::thread::spawn(move || {
        let mut last = u64::MAX;
        let mut since = Instant::now();
        loop {
            std::thread::sleep(std::time::Duration::from_millis(500));
            if SHARD_DONE.load(Ordering::Relaxed) {
                return;
            }
            let p = PROGRESS.load(Ordering::Relaxed);
            if p != last {
                last = p;
                since = Instant::now();
            } else if since.elapsed() > std::time::Duration::from_secs(limit_s) {
                println!("HANG no progress for {} s", limit_s);
                std::process::exit(3);
            }
        }
    });
}

// ---------------------------------------------------------------------------------------
// known findings
// ---------------------------------------------------------------------------------------

#[derive(Clone, Debug)]
pub struct Finding {
    pub property: String,
    pub sig: String,
    pub witness: String,
    pub what: String,
}

pub fn load_findings(property: &str) -> Vec<Finding> {
    let path = Path::new(VERIF).join("known_findings.txt");
    let text = std::fs::read_to_string(path).unwrap_or_default();
    let mut out = Vec::new();
    for line in text.lines() {
        let line = line.trim();
        if !line.starts_with("finding:") {
            continue;
        }
        let (head, what) = match line.split_once(" :: ") {
            Some(x) => x,
            None => continue,
        };
        let mut prop = String::new();
        let mut sig = String::new();
        let mut witness = String::new();
        for tok in head["finding:".len()..].split_whitespace() {
            if let Some(v) = tok.strip_prefix("property=") {
                prop = v.to_string();
            } else if let Some(v) = tok.strip_prefix("sig=") {
                sig = v.to_string();
            } else if let Some(v) = tok.strip_prefix("witness=") {
                witness = v.to_string();
            }
        }
        if prop == property {
            out.push(Finding {
                property: prop,
                sig,
                witness,
                what: what.to_string(),
            });
        }
    }
    out
}

// ---------------------------------------------------------------------------------------
// finishing a run
// ---------------------------------------------------------------------------------------

pub struct RunMeta {
    pub property: String,
    pub tier: String,
    pub seed: u64,
    pub rule: String,
    pub assumptions: Vec<String>,
    pub exhaustive: bool,
    /// minimum number of distinct non-trivial cases below which the run is inconclusive
    pub floor_nontrivial: u64,
    pub extra: Value,
    pub started: Instant,
}

fn sanitize(sig: &str) -> String {
    let mut s: String = sig
        .chars()
        .map(|c| if c.is_ascii_alphanumeric() || c == '-' || c == '_' { c } else { '_' })
        .collect();
    if s.len() > 60 {
        s.truncate(60);
    }
    format!("{}-{:08x}", s, crate::gen::fnv64(sig.as_bytes()) as u32)
}

pub fn write_replay(property: &str, v: &Violation) -> PathBuf {
    let dir = out_dir().join("replays").join(property);
    let _ = std::fs::create_dir_all(&dir);
    let path = dir.join(format!("{}.json", sanitize(&v.sig)));
    let body = json!({"property": property, "sig": v.sig, "detail": v.detail, "case": v.case});
    let _ = std::fs::write(&path, serde_json::to_string_pretty(&body).unwrap());
    path
}

/// Apply the known-findings protocol, write the evidence file, print the verdict lines and
/// return the process exit code. `witness_sigs` are the signatures that the committed witnesses of
/// the listed findings produced when replayed in this run.
pub fn finish(meta: RunMeta, report: Report, findings: &[Finding], witness_sigs: &[(Finding, Vec<String>)]) -> i32 {
    let listed: HashSet<&str> = findings.iter().map(|f| f.sig.as_str()).collect();
    let mut exit = 0;
    let mut unlisted = 0u64;
    let mut known_hits = 0u64;

    for (f, sigs) in witness_sigs {
        if sigs.iter().any(|s| *s == f.sig) {
            println!("KNOWN-FINDING: property={} sig={} {}", f.property, f.sig, f.what);
        } else {
            println!(
                "NOTE: listed finding sig={} did not reproduce on its witness {} (observed: {:?})",
                f.sig, f.witness, sigs
            );
        }
        // a witness may also show unlisted violations: those raise
        for s in sigs {
            if !listed.contains(s.as_str()) {
                // reported through the report by the caller (it merges witness violations)
            }
        }
    }

    for v in &report.violations {
        let n = report.violation_counts.get(&v.sig).copied().unwrap_or(1);
        if listed.contains(v.sig.as_str()) {
            known_hits += n;
            continue;
        }
        unlisted += n;
        let path = write_replay(&meta.property, v);
        println!("VIOLATION property={} replay={}", meta.property, path.display());
        println!("  signature: {} ({} case(s))", v.sig, n);
        for l in v.detail.lines().take(40) {
            println!("  {}", l);
        }
        exit = 1;
    }

    let distinct = report.nontrivial.len() as u64 + report.nontrivial_enumerated;
    let mut inconclusive_run = false;
    if exit == 0 {
        if report.counters.get("harness_panics").copied().unwrap_or(0) > 0 {
            println!("INCONCLUSIVE: a harness shard panicked outside a monitored call: {:?}", report.notes);
            inconclusive_run = true;
        } else if report.inconclusive * 200 > report.evaluations.max(1) {
            println!(
                "INCONCLUSIVE: {} of {} cases could not be judged: {:?}",
                report.inconclusive, report.evaluations, report.inconclusive_reasons
            );
            inconclusive_run = true;
        } else if distinct < meta.floor_nontrivial {
            println!(
                "INCONCLUSIVE: only {} distinct non-trivial cases observed (floor {}), inconclusive cases: {} {:?}",
                distinct, meta.floor_nontrivial, report.inconclusive, report.inconclusive_reasons
            );
            inconclusive_run = true;
        }
    }
    if inconclusive_run {
        exit = 2;
    }

    let mut coverage = json!({
        "evaluations": report.evaluations,
        "distinct_nontrivial": distinct,
        "rule": meta.rule,
        "samples": report.samples,
        "observed": report.counters,
        "inconclusive_cases": report.inconclusive,
        "inconclusive_reasons": report.inconclusive_reasons,
        "skipped_outside_precondition": report.skipped_precondition,
        "violations_unlisted": unlisted,
        "violations_matching_known_findings": known_hits,
        "violation_signatures": report.violation_counts,
        "exhaustive": meta.exhaustive,
    });
    if let (Some(c), Some(e)) = (coverage.as_object_mut(), meta.extra.as_object()) {
        for (k, v) in e {
            c.insert(k.clone(), v.clone());
        }
    }
    let evidence = json!({
        "property_id": meta.property,
        "tier": meta.tier,
        "seed": meta.seed,
        "level": "exploration",
        "coverage": coverage,
        "assumptions": meta.assumptions,
        "wall_s": meta.started.elapsed().as_secs_f64(),
        "violations": unlisted,
        "verdict": if exit == 1 { "violated" } else if exit == 2 { "inconclusive" } else { "held on what was observed" },
        "notes": report.notes,
    });
    let dir = out_dir().join("evidence");
    let _ = std::fs::create_dir_all(&dir);
    let path = dir.join(format!("{}.json", meta.property));
    std::fs::write(&path, serde_json::to_string_pretty(&evidence).unwrap()).expect("write evidence");

    println!(
        "{} tier={} seed={} evaluations={} distinct_nontrivial={} inconclusive={} known-hits={} unlisted-violations={} wall={:.1}s",
        meta.property,
        meta.tier,
        meta.seed,
        report.evaluations,
        distinct,
        report.inconclusive,
        known_hits,
        unlisted,
        meta.started.elapsed().as_secs_f64()
    );
    exit
}
