//! Extractor `X`: strict line grammar of the rendered text, syn as the Rust-syntax oracle,
//! explicit identifier rules, and the pre-order mapping of structs to tree positions.

use std::collections::HashMap;

use crate::model::Canon;

#[derive(Clone, Debug, PartialEq)]
pub struct RField {
    pub ident: String,
    pub rename: Option<String>,
    pub optional: bool,
    pub vec: bool,
    pub base: String,
}

impl RField {
    pub fn binding(&self) -> &str {
        match &self.rename {
            Some(r) => r,
            None => &self.ident,
        }
    }
}

#[derive(Clone, Debug, PartialEq)]
pub struct RStruct {
    pub name: String,
    pub derive: Option<String>,
    pub fields: Vec<RField>,
}

fn parse_type(t: &str) -> Option<(bool, bool, String)> {
    let (optional, rest) = match t.strip_prefix("Option<").and_then(|r| r.strip_suffix('>')) {
        Some(r) => (true, r),
        None => (false, t),
    };
    let (vec, rest) = match rest.strip_prefix("Vec<").and_then(|r| r.strip_suffix('>')) {
        Some(r) => (true, r),
        None => (false, rest),
    };
    if rest.contains('<') || rest.contains('>') || rest.contains(' ') || rest.contains(',') {
        return None;
    }
    Some((optional, vec, rest.to_string()))
}

/// Structs, fields, renames and types read from the syn AST: tolerant of layout, comments and extra
/// attributes. Used when the strict line grammar does not match, so that a harmless change of the
/// rendering's layout does not blind (or alarm) the monitors.
pub fn parse_rendered_syn(text: &str) -> Result<Vec<RStruct>, String> {
    fn type_of(t: &syn::Type) -> Option<(bool, bool, String)> {
        fn generic_arg(seg: &syn::PathSegment) -> Option<&syn::Type> {
            if let syn::PathArguments::AngleBracketed(a) = &seg.arguments {
                if a.args.len() == 1 {
                    if let syn::GenericArgument::Type(t) = &a.args[0] {
                        return Some(t);
                    }
                }
            }
            None
        }
        let path = match t {
            syn::Type::Path(p) if p.qself.is_none() => &p.path,
            _ => return None,
        };
        let last = path.segments.last()?;
        let name = last.ident.to_string();
        if name == "Option" && path.segments.len() == 1 {
            if let Some(inner) = generic_arg(last) {
                let (o, v, b) = type_of(inner)?;
                if o {
                    return None;
                }
                return Some((true, v, b));
            }
        }
        if name == "Vec" && path.segments.len() == 1 {
            if let Some(inner) = generic_arg(last) {
                let (o, v, b) = type_of(inner)?;
                if o || v {
                    return None;
                }
                return Some((false, true, b));
            }
        }
        if !matches!(last.arguments, syn::PathArguments::None) {
            return None;
        }
        Some((false, false, path.segments.iter().map(|s| s.ident.to_string()).collect::<Vec<_>>().join("::")))
    }
    fn rename_of(attrs: &[syn::Attribute]) -> Option<String> {
        let mut out = None;
        for a in attrs {
            if a.path().is_ident("serde") {
                let _ = a.parse_nested_meta(|m| {
                    if m.path.is_ident("rename") {
                        if let Ok(v) = m.value() {
                            if let Ok(l) = v.parse::<syn::LitStr>() {
                                out = Some(l.value());
                            }
                        }
                    } else if m.input.peek(syn::Token![=]) {
                        let _ = m.value().and_then(|v| v.parse::<syn::Expr>());
                    }
                    Ok(())
                });
            }
        }
        out
    }
    let file = syn::parse_file(text).map_err(|e| format!("syn: {}", e))?;
    let mut out = Vec::new();
    for item in file.items {
        let st = match item {
            syn::Item::Struct(s) => s,
            _ => return Err("non-struct item in output".into()),
        };
        let derive = st.attrs.iter().find(|a| a.path().is_ident("derive")).and_then(|a| match &a.meta {
            syn::Meta::List(l) => Some(l.tokens.to_string()),
            _ => None,
        });
        let mut fields = Vec::new();
        if let syn::Fields::Named(named) = st.fields {
            for f in named.named {
                let ident = f.ident.as_ref().map(|i| i.to_string()).unwrap_or_default();
                let (optional, vec, base) = type_of(&f.ty).ok_or_else(|| format!("unsupported field type of {}", ident))?;
                fields.push(RField {
                    ident,
                    rename: rename_of(&f.attrs),
                    optional,
                    vec,
                    base,
                });
            }
        } else {
            return Err(format!("struct {} is not a named-field struct", st.ident));
        }
        out.push(RStruct {
            name: st.ident.to_string(),
            derive,
            fields,
        });
    }
    if out.is_empty() {
        return Err("no struct in output".into());
    }
    Ok(out)
}

/// strict line grammar of the renderer's current layout; falls back to the syn AST when the layout
/// differs but the text is still a sequence of struct items
pub fn parse_rendered(text: &str) -> Result<Vec<RStruct>, String> {
    match parse_rendered_lines(text) {
        Ok(s) => Ok(s),
        Err(e) => parse_rendered_syn(text).map_err(|_| e),
    }
}

/// strict line grammar; anything else is an error naming the line
pub fn parse_rendered_lines(text: &str) -> Result<Vec<RStruct>, String> {
    let mut out = Vec::new();
    let lines: Vec<&str> = text.split('\n').collect();
    // the text ends with "}\n\n" -> last two split items are empty
    let mut i = 0;
    let n = lines.len();
    if text.is_empty() {
        return Err("empty output".into());
    }
    if !text.ends_with("}\n\n") {
        return Err("output does not end with a closed struct and blank line".into());
    }
    while i < n {
        if i == n - 1 && lines[i].is_empty() {
            break;
        }
        let mut derive = None;
        if let Some(d) = lines[i].strip_prefix("#[derive(").and_then(|r| r.strip_suffix(")]")) {
            derive = Some(d.to_string());
            i += 1;
            if i >= n {
                return Err("derive line at end".into());
            }
        }
        let name = match lines[i].strip_prefix("pub struct ").and_then(|r| r.strip_suffix(" {")) {
            Some(nm) => nm.to_string(),
            None => return Err(format!("line {}: expected struct header, got {:?}", i + 1, lines[i])),
        };
        i += 1;
        let mut fields = Vec::new();
        loop {
            if i >= n {
                return Err("unterminated struct".into());
            }
            if lines[i] == "}" {
                i += 1;
                break;
            }
            let mut rename = None;
            if let Some(r) = lines[i]
                .strip_prefix("    #[serde(rename = \"")
                .and_then(|r| r.strip_suffix("\")]"))
            {
                rename = Some(r.to_string());
                i += 1;
                if i >= n {
                    return Err("rename line at end".into());
                }
            }
            let body = match lines[i].strip_prefix("    pub ").and_then(|r| r.strip_suffix(',')) {
                Some(b) => b,
                None => return Err(format!("line {}: expected field, got {:?}", i + 1, lines[i])),
            };
            let (ident, ty) = match body.find(": ") {
                Some(p) => (&body[..p], &body[p + 2..]),
                None => return Err(format!("line {}: field without type {:?}", i + 1, lines[i])),
            };
            let (optional, vec, base) = match parse_type(ty) {
                Some(t) => t,
                None => return Err(format!("line {}: unsupported field type {:?}", i + 1, ty)),
            };
            fields.push(RField {
                ident: ident.to_string(),
                rename,
                optional,
                vec,
                base,
            });
            i += 1;
        }
        // blank line after each struct
        if i >= n || !lines[i].is_empty() {
            return Err(format!("line {}: expected blank line after struct", i + 1));
        }
        i += 1;
        out.push(RStruct { name, derive, fields });
    }
    if out.is_empty() {
        return Err("no struct in output".into());
    }
    Ok(out)
}

// ---------------------------------------------------------------------------------------
// identifier rules (edition 2021)
// ---------------------------------------------------------------------------------------

pub const STRICT_AND_RESERVED: &[&str] = &[
    "as", "break", "const", "continue", "crate", "else", "enum", "extern", "false", "fn", "for", "if", "impl", "in",
    "let", "loop", "match", "mod", "move", "mut", "pub", "ref", "return", "self", "Self", "static", "struct", "super",
    "trait", "true", "type", "unsafe", "use", "where", "while", "async", "await", "dyn", "abstract", "become", "box",
    "do", "final", "macro", "override", "priv", "typeof", "unsized", "virtual", "yield", "try",
];

pub fn is_keyword(s: &str) -> bool {
    STRICT_AND_RESERVED.contains(&s)
}

pub fn is_legal_ident_shape(s: &str) -> bool {
    let mut chars = s.chars();
    let first = match chars.next() {
        Some(c) => c,
        None => return false,
    };
    if first == '_' {
        if s.len() == 1 {
            return false;
        }
    } else if !unicode_ident::is_xid_start(first) {
        return false;
    }
    chars.all(unicode_ident::is_xid_continue)
}

// ---------------------------------------------------------------------------------------
// well-formedness complaints (C04), each with a narrow signature
// ---------------------------------------------------------------------------------------

#[derive(Clone, Debug, PartialEq)]
pub struct Complaint {
    pub sig: String,
    pub detail: String,
}

fn complaint(sig: String, detail: String) -> Complaint {
    Complaint { sig, detail }
}

/// syn-level check: a file made only of `pub struct` items with named pub fields
pub fn syn_check(text: &str) -> Result<Vec<(String, Vec<String>)>, String> {
    let file = syn::parse_file(text).map_err(|e| format!("syn: {}", e))?;
    let mut out = Vec::new();
    for item in file.items {
        match item {
            syn::Item::Struct(s) => {
                if !matches!(s.vis, syn::Visibility::Public(_)) {
                    return Err(format!("struct {} not pub", s.ident));
                }
                if !s.generics.params.is_empty() {
                    return Err(format!("struct {} has generics", s.ident));
                }
                let mut fields = Vec::new();
                match s.fields {
                    syn::Fields::Named(named) => {
                        for f in named.named {
                            fields.push(f.ident.map(|i| i.to_string()).unwrap_or_default());
                        }
                    }
                    _ => return Err(format!("struct {} is not a named-field struct", s.ident)),
                }
                out.push((s.ident.to_string(), fields));
            }
            other => {
                return Err(format!(
                    "non-struct item in output: {}",
                    quote_kind(&other)
                ))
            }
        }
    }
    Ok(out)
}

fn quote_kind(i: &syn::Item) -> &'static str {
    match i {
        syn::Item::Const(_) => "const",
        syn::Item::Enum(_) => "enum",
        syn::Item::Fn(_) => "fn",
        syn::Item::Impl(_) => "impl",
        syn::Item::Mod(_) => "mod",
        syn::Item::Use(_) => "use",
        syn::Item::Type(_) => "type",
        syn::Item::Macro(_) => "macro",
        _ => "other",
    }
}

/// All complaints the statement of C04 allows about one rendering, except the cause of
/// duplicate struct names (classified by the caller, which knows the tree).
pub fn wellformed_complaints(text: &str) -> (Option<Vec<RStruct>>, Vec<Complaint>) {
    let mut out = Vec::new();
    let structs = match parse_rendered(text) {
        Ok(s) => s,
        Err(e) => {
            out.push(complaint("grammar".into(), e));
            // still ask syn so the complaint says whether it is Rust at all
            if let Err(e) = syn_check(text) {
                out.push(complaint("syn-reject".into(), e));
            }
            return (None, out);
        }
    };
    let mut explains_syntax_failure = false;
    let mut seen: HashMap<&str, usize> = HashMap::new();
    for s in &structs {
        *seen.entry(s.name.as_str()).or_insert(0) += 1;
        if !is_legal_ident_shape(&s.name) {
            explains_syntax_failure = true;
            out.push(complaint(
                format!("struct-name-illegal:{}", s.name),
                format!("struct name {:?} is not an identifier", s.name),
            ));
        } else if is_keyword(&s.name) {
            explains_syntax_failure = true;
            out.push(complaint(
                format!("struct-name-reserved:{}", s.name),
                format!("struct name {:?} is a reserved word", s.name),
            ));
        } else if ["String", "Option", "Vec"].contains(&s.name.as_str()) {
            out.push(complaint(
                format!("struct-name-shadows:{}", s.name),
                format!("struct named {} shadows the prelude type used by the fields", s.name),
            ));
        }
        let mut fseen: Vec<&str> = Vec::new();
        for f in &s.fields {
            if !is_legal_ident_shape(&f.ident) {
                explains_syntax_failure = true;
                out.push(complaint(
                    "field-illegal".into(),
                    format!("field {:?} of struct {} is not an identifier", f.ident, s.name),
                ));
            } else if is_keyword(&f.ident) {
                explains_syntax_failure = true;
                out.push(complaint(
                    "field-keyword".into(),
                    format!("field {:?} of struct {} is a keyword", f.ident, s.name),
                ));
            }
            if fseen.contains(&f.ident.as_str()) {
                out.push(complaint(
                    "dup-field".into(),
                    format!("field {:?} appears twice in struct {}", f.ident, s.name),
                ));
            }
            fseen.push(&f.ident);
            if !is_legal_ident_shape(&f.base) || is_keyword(&f.base) {
                explains_syntax_failure = true;
            }
        }
    }
    // def/use graph
    let defined: Vec<&str> = structs.iter().map(|s| s.name.as_str()).collect();
    let mut uses: HashMap<&str, usize> = HashMap::new();
    for s in &structs {
        for f in &s.fields {
            if f.base == "String" && !defined.contains(&"String") {
                continue;
            }
            if f.base == "String" {
                // ambiguous: either the prelude type or the shadowing struct; the shadow complaint covers it
                continue;
            }
            if !defined.contains(&f.base.as_str()) {
                out.push(complaint(
                    "type-undefined".into(),
                    format!("field {} of {} has type {} which is not defined in the output", f.ident, s.name, f.base),
                ));
            } else {
                *uses.entry(f.base.as_str()).or_insert(0) += 1;
            }
        }
    }
    let dup_names: Vec<&str> = seen.iter().filter(|(_, c)| **c > 1).map(|(n, _)| *n).collect();
    for (idx, s) in structs.iter().enumerate() {
        if dup_names.contains(&s.name.as_str()) || s.name == "String" {
            continue; // counted per definition below / ambiguous
        }
        let u = uses.get(s.name.as_str()).copied().unwrap_or(0);
        if idx == 0 {
            if u != 0 {
                out.push(complaint(
                    "root-struct-used".into(),
                    format!("root struct {} is used by {} field(s)", s.name, u),
                ));
            }
        } else if u != 1 {
            out.push(complaint(
                "struct-use-count".into(),
                format!("struct {} is used by {} fields (expected exactly one)", s.name, u),
            ));
        }
    }
    for d in &dup_names {
        // with duplicates, uses must equal definitions (minus the root if it is one of them)
        let defs = seen[d];
        let u = uses.get(d).copied().unwrap_or(0);
        let root_is = structs[0].name == **d;
        let expect = if root_is { defs - 1 } else { defs };
        if u != expect {
            out.push(complaint(
                "struct-use-count".into(),
                format!("struct name {} defined {} times but used by {} fields", d, defs, u),
            ));
        }
    }
    // syn as second opinion
    match syn_check(text) {
        Ok(items) => {
            let a: Vec<&str> = items.iter().map(|(n, _)| n.as_str()).collect();
            let b: Vec<&str> = structs.iter().map(|s| s.name.as_str()).collect();
            if a != b {
                out.push(complaint(
                    "syn-disagrees".into(),
                    format!("syn sees structs {:?}, line grammar sees {:?}", a, b),
                ));
            }
        }
        Err(e) => {
            if !explains_syntax_failure {
                out.push(complaint("syn-reject".into(), e));
            }
        }
    }
    (Some(structs), out)
}

// ---------------------------------------------------------------------------------------
// struct tree (pre-order mapping)
// ---------------------------------------------------------------------------------------

#[derive(Clone, Debug)]
pub struct EAttr {
    pub ident: String,
    /// binding without the attribute prefix
    pub bound: String,
    pub optional: bool,
}

#[derive(Clone, Debug)]
pub struct EChild {
    pub ident: String,
    pub bound: String,
    pub optional: bool,
    pub vec: bool,
    pub type_name: String,
    /// None: typed String
    pub node: Option<Box<ENode>>,
}

#[derive(Clone, Debug)]
pub struct ENode {
    pub struct_name: String,
    pub struct_index: usize,
    pub attrs: Vec<EAttr>,
    pub text: Option<String>,
    pub text_type_ok: bool,
    pub children: Vec<EChild>,
    /// order of the field groups as rendered: 'a' attribute, 't' text, 'c' child
    pub group_order: String,
}

/// Build the tree by consuming structs in pre-order. `attr_prefix` must be non-empty and must not
/// be a possible prefix of a child binding (use '@' or a sentinel).
pub fn build_tree(structs: &[RStruct], attr_prefix: &str, text_id: &str) -> Result<ENode, String> {
    if structs.iter().any(|s| s.name == "String") {
        return Err("ambiguous: a struct is named String".into());
    }
    let mut next = 0usize;
    fn consume(structs: &[RStruct], next: &mut usize, attr_prefix: &str, text_id: &str, depth: usize) -> Result<ENode, String> {
        if depth > 2000 {
            return Err("tree too deep".into());
        }
        let idx = *next;
        let s = structs.get(idx).ok_or_else(|| "a field refers to a struct that is not emitted in pre-order".to_string())?;
        *next += 1;
        let mut node = ENode {
            struct_name: s.name.clone(),
            struct_index: idx,
            attrs: vec![],
            text: None,
            text_type_ok: true,
            children: vec![],
            group_order: String::new(),
        };
        for f in &s.fields {
            let b = f.binding();
            if b == text_id {
                if node.text.is_some() {
                    return Err(format!("struct {} has two text fields", s.name));
                }
                node.text = Some(f.ident.clone());
                node.text_type_ok = f.optional && !f.vec && f.base == "String";
                node.group_order.push('t');
            } else if let Some(bare) = b.strip_prefix(attr_prefix) {
                if f.vec || f.base != "String" {
                    return Err(format!("attribute field {} of {} has type other than (Option<)String", f.ident, s.name));
                }
                node.attrs.push(EAttr {
                    ident: f.ident.clone(),
                    bound: bare.to_string(),
                    optional: f.optional,
                });
                node.group_order.push('a');
            } else {
                node.group_order.push('c');
                let sub = if f.base == "String" {
                    None
                } else {
                    let sub = consume(structs, next, attr_prefix, text_id, depth + 1)?;
                    if sub.struct_name != f.base {
                        return Err(format!(
                            "field {} of {} has type {} but the next struct in pre-order is {}",
                            f.ident, s.name, f.base, sub.struct_name
                        ));
                    }
                    Some(Box::new(sub))
                };
                node.children.push(EChild {
                    ident: f.ident.clone(),
                    bound: b.to_string(),
                    optional: f.optional,
                    vec: f.vec,
                    type_name: f.base.clone(),
                    node: sub,
                });
            }
        }
        Ok(node)
    }
    let root = consume(structs, &mut next, attr_prefix, text_id, 0)?;
    if next != structs.len() {
        return Err(format!("{} struct(s) not reachable from the first struct in pre-order", structs.len() - next));
    }
    Ok(root)
}

pub fn canon_of_tree(n: &ENode) -> Canon {
    let mut attrs: Vec<(String, bool)> = n.attrs.iter().map(|a| (a.bound.clone(), a.optional)).collect();
    attrs.sort();
    let mut children: Vec<(String, bool, bool, Canon)> = n
        .children
        .iter()
        .map(|c| {
            let sub = match &c.node {
                Some(s) => canon_of_tree(s),
                None => Canon {
                    attrs: vec![],
                    has_text: true,
                    string_typed: true,
                    children: vec![],
                },
            };
            (c.bound.clone(), c.optional, c.vec, sub)
        })
        .collect();
    children.sort();
    Canon {
        attrs,
        has_text: n.text.is_some(),
        string_typed: false,
        children,
    }
}

impl ENode {
    pub fn count(&self) -> usize {
        1 + self
            .children
            .iter()
            .map(|c| c.node.as_ref().map(|n| n.count()).unwrap_or(0))
            .sum::<usize>()
    }
}
