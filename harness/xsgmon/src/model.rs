//! Reference inference `M` written from the property statements (not from the parser):
//! group element occurrences by path of names from the root; a field is mandatory iff present
//! in every occurrence of its parent, Vec iff some parent occurrence holds it twice, text iff
//! some occurrence holds a text or CDATA node.

use crate::gen::{Doc, Elem};

#[derive(Clone, Debug, PartialEq)]
pub struct SAttr {
    pub name: String,
    pub mandatory: bool,
}

#[derive(Clone, Debug, PartialEq)]
pub struct SChild {
    pub name: String,
    pub mandatory: bool,
    pub multiple: bool,
    pub node: SNode,
}

#[derive(Clone, Debug, PartialEq)]
pub struct SNode {
    pub name: String,
    /// first-appearance order
    pub attrs: Vec<SAttr>,
    /// first-appearance order
    pub children: Vec<SChild>,
    pub has_text: bool,
    pub has_significant_text: bool,
    pub occurrences: usize,
}

impl SNode {
    /// typed `String` instead of getting a struct
    pub fn string_typed(&self) -> bool {
        self.has_text && self.attrs.is_empty() && self.children.is_empty()
    }
    pub fn count_nodes(&self) -> usize {
        1 + self.children.iter().map(|c| c.node.count_nodes()).sum::<usize>()
    }
}

pub fn infer_occurrences(name: &str, occs: &[&Elem]) -> SNode {
    let mut attrs: Vec<(String, usize)> = Vec::new();
    let mut children: Vec<(String, usize, bool, Vec<&Elem>)> = Vec::new();
    let mut has_text = false;
    let mut has_sig = false;
    for o in occs {
        if o.has_text_node() {
            has_text = true;
        }
        if o.has_significant_text() {
            has_sig = true;
        }
        for (k, _) in &o.attrs {
            match attrs.iter_mut().find(|(n, _)| n == k) {
                Some(a) => a.1 += 1,
                None => attrs.push((k.clone(), 1)),
            }
        }
        // per-occurrence counts
        let mut local: Vec<(&str, usize)> = Vec::new();
        for c in o.child_elems() {
            match local.iter_mut().find(|(n, _)| *n == c.name) {
                Some(l) => l.1 += 1,
                None => local.push((&c.name, 1)),
            }
            match children.iter_mut().find(|(n, _, _, _)| *n == c.name) {
                Some(ch) => ch.3.push(c),
                None => children.push((c.name.clone(), 0, false, vec![c])),
            }
        }
        for (n, cnt) in local {
            let ch = children.iter_mut().find(|(m, _, _, _)| m == n).unwrap();
            ch.1 += 1; // number of parent occurrences containing it
            if cnt > 1 {
                ch.2 = true;
            }
        }
    }
    SNode {
        name: name.to_string(),
        attrs: attrs
            .into_iter()
            .map(|(n, c)| SAttr {
                name: n,
                mandatory: c == occs.len(),
            })
            .collect(),
        children: children
            .into_iter()
            .map(|(n, present, multiple, occ)| SChild {
                mandatory: present == occs.len(),
                multiple,
                node: infer_occurrences(&n, &occ),
                name: n,
            })
            .collect(),
        has_text,
        has_significant_text: has_sig,
        occurrences: occs.len(),
    }
}

/// schema of a history of documents sharing the root name
pub fn infer(docs: &[Doc]) -> SNode {
    let roots: Vec<&Elem> = docs.iter().map(|d| &d.root).collect();
    infer_occurrences(&docs[0].root.name, &roots)
}

// ---------------------------------------------------------------------------------------
// bound names (what serde matches on)
// ---------------------------------------------------------------------------------------

pub fn local_name(n: &str) -> &str {
    match n.find(':') {
        Some(i) => &n[i + 1..],
        None => n,
    }
}

/// serde binding of an attribute without the preset's prefix
pub fn attr_bound(n: &str) -> &str {
    if n.starts_with("xmlns:") {
        n
    } else {
        local_name(n)
    }
}

pub fn child_bound(n: &str) -> &str {
    local_name(n)
}

/// precondition of C01/C02/C03: no two sibling element names and no two attribute names of one
/// element differ only by namespace prefix (i.e. bound names are unique per position)
pub fn bound_names_unique(n: &SNode) -> bool {
    for (i, a) in n.attrs.iter().enumerate() {
        for b in &n.attrs[i + 1..] {
            if attr_bound(&a.name) == attr_bound(&b.name) {
                return false;
            }
        }
    }
    for (i, a) in n.children.iter().enumerate() {
        for b in &n.children[i + 1..] {
            if child_bound(&a.name) == child_bound(&b.name) {
                return false;
            }
        }
    }
    n.children.iter().all(|c| bound_names_unique(&c.node))
}

// ---------------------------------------------------------------------------------------
// Canonical schema: independent of identifiers, struct names and order
// ---------------------------------------------------------------------------------------

#[derive(Clone, Debug, PartialEq, Eq, PartialOrd, Ord, Hash)]
pub struct Canon {
    /// (bound name, optional)
    pub attrs: Vec<(String, bool)>,
    pub has_text: bool,
    pub string_typed: bool,
    /// (bound name, optional, vec, sub-schema)
    pub children: Vec<(String, bool, bool, Canon)>,
}

pub fn canon_of_model(n: &SNode) -> Canon {
    let mut attrs: Vec<(String, bool)> = n
        .attrs
        .iter()
        .map(|a| (attr_bound(&a.name).to_string(), !a.mandatory))
        .collect();
    attrs.sort();
    let mut children: Vec<(String, bool, bool, Canon)> = n
        .children
        .iter()
        .map(|c| {
            (
                child_bound(&c.name).to_string(),
                !c.mandatory,
                c.multiple,
                canon_of_model(&c.node),
            )
        })
        .collect();
    children.sort();
    Canon {
        attrs,
        has_text: n.has_text,
        string_typed: n.string_typed(),
        children,
    }
}

impl Canon {
    pub fn describe(&self) -> String {
        let mut s = String::new();
        self.describe_into(&mut s);
        s
    }
    fn describe_into(&self, s: &mut String) {
        if self.string_typed {
            s.push_str("String");
            return;
        }
        s.push('{');
        for (n, o) in &self.attrs {
            s.push_str(&format!("@{}{} ", n, if *o { "?" } else { "" }));
        }
        if self.has_text {
            s.push_str("#text ");
        }
        for (n, o, v, c) in &self.children {
            s.push_str(&format!("{}{}{}:", n, if *o { "?" } else { "" }, if *v { "*" } else { "" }));
            c.describe_into(s);
            s.push(' ');
        }
        s.push('}');
    }
    /// first difference between two canonical schemas, as a path + description
    pub fn diff(&self, other: &Canon, path: &str) -> Option<String> {
        if self.string_typed != other.string_typed {
            return Some(format!("{}: string-typed {} vs {}", path, self.string_typed, other.string_typed));
        }
        if self.has_text != other.has_text {
            return Some(format!("{}: text {} vs {}", path, self.has_text, other.has_text));
        }
        if self.attrs != other.attrs {
            return Some(format!("{}: attributes {:?} vs {:?}", path, self.attrs, other.attrs));
        }
        let a: Vec<_> = self.children.iter().map(|c| (&c.0, c.1, c.2)).collect();
        let b: Vec<_> = other.children.iter().map(|c| (&c.0, c.1, c.2)).collect();
        if a != b {
            return Some(format!("{}: children (name,optional,vec) {:?} vs {:?}", path, a, b));
        }
        for (x, y) in self.children.iter().zip(other.children.iter()) {
            if let Some(d) = x.3.diff(&y.3, &format!("{}/{}", path, x.0)) {
                return Some(d);
            }
        }
        None
    }
}
