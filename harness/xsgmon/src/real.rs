//! Thin boundary to the code under observation: everything goes through the public API.

use std::io::BufReader;

use quick_xml::reader::Reader;
use xml_schema_generator::{extend_struct, into_struct, Element, Options, ParserError, SortBy};

use crate::gen::{ChunkyReader, ReaderKind};

/// the seven booleans of quick_xml::reader::Config
#[derive(Clone, Copy, Debug, PartialEq, Default)]
pub struct Cfg(pub u8);

impl Cfg {
    pub fn apply<R>(&self, reader: &mut Reader<R>) {
        let c = reader.config_mut();
        c.trim_text_start = self.0 & 1 != 0;
        c.trim_text_end = self.0 & 2 != 0;
        c.expand_empty_elements = self.0 & 4 != 0;
        c.check_end_names = self.0 & 8 == 0; // default true
        c.allow_unmatched_ends = self.0 & 16 != 0;
        c.check_comments = self.0 & 32 != 0;
        c.trim_markup_names_in_closing_tags = self.0 & 64 == 0; // default true
    }
    pub fn describe(&self) -> String {
        format!(
            "trim_start={} trim_end={} expand_empty={} check_end_names={} allow_unmatched_ends={} check_comments={} trim_markup_names={}",
            self.0 & 1 != 0,
            self.0 & 2 != 0,
            self.0 & 4 != 0,
            self.0 & 8 == 0,
            self.0 & 16 != 0,
            self.0 & 32 != 0,
            self.0 & 64 == 0
        )
    }
    pub const EXPAND_EMPTY: Cfg = Cfg(4);
}

pub fn parse_bytes(bytes: &[u8], kind: ReaderKind, cfg: Cfg) -> Result<Element<String>, ParserError> {
    match kind {
        ReaderKind::Str => match std::str::from_utf8(bytes) {
            Ok(s) => {
                let mut r = Reader::from_str(s);
                cfg.apply(&mut r);
                into_struct(&mut r)
            }
            Err(_) => {
                let mut r = Reader::from_reader(bytes);
                cfg.apply(&mut r);
                into_struct(&mut r)
            }
        },
        ReaderKind::Slice => {
            let mut r = Reader::from_reader(bytes);
            cfg.apply(&mut r);
            into_struct(&mut r)
        }
        ReaderKind::BufReader(cap) => {
            let mut r = Reader::from_reader(BufReader::with_capacity(cap.max(1), bytes));
            cfg.apply(&mut r);
            into_struct(&mut r)
        }
        ReaderKind::Chunky(seed, max) => {
            let mut r = Reader::from_reader(ChunkyReader::new(bytes, seed, max));
            cfg.apply(&mut r);
            into_struct(&mut r)
        }
    }
}

pub fn extend_bytes(
    bytes: &[u8],
    kind: ReaderKind,
    cfg: Cfg,
    root: Element<String>,
) -> Result<Element<String>, ParserError> {
    match kind {
        ReaderKind::Str => match std::str::from_utf8(bytes) {
            Ok(s) => {
                let mut r = Reader::from_str(s);
                cfg.apply(&mut r);
                extend_struct(&mut r, root)
            }
            Err(_) => {
                let mut r = Reader::from_reader(bytes);
                cfg.apply(&mut r);
                extend_struct(&mut r, root)
            }
        },
        ReaderKind::Slice => {
            let mut r = Reader::from_reader(bytes);
            cfg.apply(&mut r);
            extend_struct(&mut r, root)
        }
        ReaderKind::BufReader(cap) => {
            let mut r = Reader::from_reader(BufReader::with_capacity(cap.max(1), bytes));
            cfg.apply(&mut r);
            extend_struct(&mut r, root)
        }
        ReaderKind::Chunky(seed, max) => {
            let mut r = Reader::from_reader(ChunkyReader::new(bytes, seed, max));
            cfg.apply(&mut r);
            extend_struct(&mut r, root)
        }
    }
}

/// parse(D1), extend(D2) ... extend(Dk) with the given reader kinds (cycled)
pub fn run_history(texts: &[String], kinds: &[ReaderKind], cfg: Cfg) -> Result<Element<String>, (usize, String)> {
    let kind = |i: usize| if kinds.is_empty() { ReaderKind::Str } else { kinds[i % kinds.len()] };
    let mut root = parse_bytes(texts[0].as_bytes(), kind(0), cfg).map_err(|e| (0, e.to_string()))?;
    for (i, t) in texts.iter().enumerate().skip(1) {
        root = extend_bytes(t.as_bytes(), kind(i), cfg, root).map_err(|e| (i, e.to_string()))?;
    }
    Ok(root)
}

/// the same history, but the tree is rendered (unsorted and sorted, with the quick-xml preset and
/// with another prefix / text identifier; results discarded) after every step before it is extended
/// further. With `threads` the renderings happen on a fresh thread through a shared reference.
pub fn run_history_rendering_between(texts: &[String], kinds: &[ReaderKind], cfg: Cfg, threads: bool) -> Result<Element<String>, (usize, String)> {
    let kind = |i: usize| if kinds.is_empty() { ReaderKind::Str } else { kinds[i % kinds.len()] };
    let render = |root: &Element<String>, i: usize| {
        let work = |root: &Element<String>| {
            let _ = root.to_serde_struct(&opts_qx(i % 2 == 1));
            let _ = root.to_serde_struct(&opts("", "text_content", "Debug", i % 2 == 0));
        };
        if threads {
            #[cfg(not(feature = "element_not_sync"))]
            std::thread::scope(|s| {
                let _ = std::thread::Builder::new().stack_size(32 << 20).spawn_scoped(s, || work(root)).expect("spawn").join();
            });
            // Element<String> is not Sync on this tree: render here instead of through a shared reference
            #[cfg(feature = "element_not_sync")]
            work(root);
        } else {
            work(root);
        }
    };
    let mut root = parse_bytes(texts[0].as_bytes(), kind(0), cfg).map_err(|e| (0, e.to_string()))?;
    for (i, t) in texts.iter().enumerate().skip(1) {
        render(&root, i);
        root = extend_bytes(t.as_bytes(), kind(i), cfg, root).map_err(|e| (i, e.to_string()))?;
    }
    Ok(root)
}

/// the same history, but every step runs on a freshly spawned thread and the tree is moved between
/// them (Element<String> is Send): thread-affine state in the library would show
pub fn run_history_across_threads(texts: &[String], kinds: &[ReaderKind], cfg: Cfg) -> Result<Element<String>, (usize, String)> {
    let kind = |i: usize| if kinds.is_empty() { ReaderKind::Str } else { kinds[i % kinds.len()] };
    let first = texts[0].clone();
    let k0 = kind(0);
    let mut root = std::thread::Builder::new()
        .stack_size(32 << 20)
        .spawn(move || parse_bytes(first.as_bytes(), k0, cfg).map_err(|e| (0usize, e.to_string())))
        .expect("spawn")
        .join()
        .map_err(|_| (0usize, "panic on the worker thread".to_string()))??;
    for (i, t) in texts.iter().enumerate().skip(1) {
        let t = t.clone();
        let k = kind(i);
        let moved = root;
        root = std::thread::Builder::new()
            .stack_size(32 << 20)
            .spawn(move || extend_bytes(t.as_bytes(), k, cfg, moved).map_err(|e| (i, e.to_string())))
            .expect("spawn")
            .join()
            .map_err(|_| (i, "panic on the worker thread".to_string()))??;
    }
    Ok(root)
}

pub fn opts(prefix: &str, text: &str, derive: &str, sorted: bool) -> Options {
    Options {
        text_identifier: text.to_string(),
        attribute_prefix: prefix.to_string(),
        derive: derive.to_string(),
        sort: if sorted { SortBy::XmlName } else { SortBy::Unsorted },
    }
}

/// the quick-xml preset written out as a literal (independent of Options::quick_xml_de())
pub fn opts_qx(sorted: bool) -> Options {
    opts("@", "$text", "Serialize, Deserialize", sorted)
}
