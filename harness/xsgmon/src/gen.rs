//! Workload generator: seeded PRNG, document AST, name pools, surface serializer,
//! byte mutators and hostile BufRead implementations.
//!
//! Ground truth about a document is its AST (known without parsing); the serializer adds
//! seeded surface variation that must never matter to the schema.

use std::io::{BufRead, Read};

use serde::{Deserialize, Serialize};

// ---------------------------------------------------------------------------------------
// PRNG
// ---------------------------------------------------------------------------------------

#[derive(Clone, Debug)]
pub struct Rng(pub u64);

impl Rng {
    pub fn new(seed: u64) -> Rng {
        Rng(seed ^ 0x9E37_79B9_7F4A_7C15)
    }
    /// derive an independent stream from (seed, label, index)
    pub fn derive(seed: u64, label: &str, index: u64) -> Rng {
        let mut h: u64 = 0xcbf2_9ce4_8422_2325 ^ seed.wrapping_mul(0x100_0000_01b3);
        for b in label.bytes() {
            h ^= b as u64;
            h = h.wrapping_mul(0x100_0000_01b3);
        }
        h ^= index.wrapping_mul(0xD6E8_FEB8_6659_FD93);
        let mut r = Rng(h);
        r.next();
        r.next();
        r
    }
    pub fn next(&mut self) -> u64 {
        self.0 = self.0.wrapping_add(0x9E37_79B9_7F4A_7C15);
        let mut z = self.0;
        z = (z ^ (z >> 30)).wrapping_mul(0xBF58_476D_1CE4_E5B9);
        z = (z ^ (z >> 27)).wrapping_mul(0x94D0_49BB_1331_11EB);
        z ^ (z >> 31)
    }
    pub fn below(&mut self, n: usize) -> usize {
        if n == 0 {
            0
        } else {
            (self.next() % n as u64) as usize
        }
    }
    pub fn range(&mut self, lo: usize, hi: usize) -> usize {
        lo + self.below(hi - lo + 1)
    }
    /// true with probability num/den
    pub fn chance(&mut self, num: usize, den: usize) -> bool {
        self.below(den) < num
    }
    pub fn pick<'a, T>(&mut self, v: &'a [T]) -> &'a T {
        &v[self.below(v.len())]
    }
    pub fn shuffle<T>(&mut self, v: &mut [T]) {
        for i in (1..v.len()).rev() {
            let j = self.below(i + 1);
            v.swap(i, j);
        }
    }
}

pub fn fnv64(bytes: &[u8]) -> u64 {
    let mut h: u64 = 0xcbf2_9ce4_8422_2325;
    for b in bytes {
        h ^= *b as u64;
        h = h.wrapping_mul(0x100_0000_01b3);
    }
    h
}

// ---------------------------------------------------------------------------------------
// AST
// ---------------------------------------------------------------------------------------

#[derive(Clone, Debug, PartialEq, Serialize, Deserialize)]
pub enum Item {
    Elem(Elem),
    /// decoded character data, never empty; the serializer escapes it
    Text(String),
    /// literal CDATA content (no "]]>"), may be empty
    CData(String),
    /// character data written verbatim: may hold references to the entity `e`, which the serializer
    /// declares in an internal DTD subset whenever a document holds such an item (well-formed XML
    /// that a non-validating reader passes through as raw text)
    RawText(String),
    Comment(String),
    PI(String),
}

#[derive(Clone, Debug, PartialEq, Serialize, Deserialize)]
pub struct Elem {
    pub name: String,
    /// (name, decoded value)
    pub attrs: Vec<(String, String)>,
    pub items: Vec<Item>,
}

#[derive(Clone, Debug, PartialEq, Serialize, Deserialize)]
pub struct Doc {
    pub root: Elem,
    /// comments / PIs before and after the root element
    pub pre: Vec<Item>,
    pub post: Vec<Item>,
    pub decl: bool,
    /// 0 none, 1 plain, 2 with internal subset
    pub doctype: u8,
}

impl Elem {
    pub fn new(name: &str) -> Elem {
        Elem {
            name: name.to_string(),
            attrs: vec![],
            items: vec![],
        }
    }
    pub fn child_elems(&self) -> impl Iterator<Item = &Elem> {
        self.items.iter().filter_map(|i| match i {
            Item::Elem(e) => Some(e),
            _ => None,
        })
    }
    /// some text or CDATA node is present (whitespace-only text counts)
    pub fn has_text_node(&self) -> bool {
        self.items
            .iter()
            .any(|i| matches!(i, Item::Text(_) | Item::CData(_) | Item::RawText(_)))
    }
    /// character data that a consumer cannot ignore: any CDATA node or text with a non-whitespace char
    pub fn has_significant_text(&self) -> bool {
        self.items.iter().any(|i| match i {
            Item::CData(_) | Item::RawText(_) => true,
            Item::Text(t) => t.chars().any(|c| !c.is_whitespace()),
            _ => false,
        })
    }
    pub fn has_raw_text(&self) -> bool {
        self.items.iter().any(|i| match i {
            Item::RawText(_) => true,
            Item::Elem(e) => e.has_raw_text(),
            _ => false,
        })
    }
    /// concatenated decoded text + CDATA content
    pub fn text_value(&self) -> String {
        let mut s = String::new();
        for i in &self.items {
            match i {
                Item::Text(t) | Item::CData(t) | Item::RawText(t) => s.push_str(t),
                _ => {}
            }
        }
        s
    }
    pub fn count_elems(&self) -> usize {
        1 + self.child_elems().map(|c| c.count_elems()).sum::<usize>()
    }
    pub fn depth(&self) -> usize {
        1 + self.child_elems().map(|c| c.depth()).max().unwrap_or(0)
    }
    pub fn walk<'a>(&'a self, f: &mut dyn FnMut(&'a Elem, &[&'a str])) {
        fn go<'a>(e: &'a Elem, path: &mut Vec<&'a str>, f: &mut dyn FnMut(&'a Elem, &[&'a str])) {
            path.push(&e.name);
            f(e, path);
            for c in e.child_elems() {
                go(c, path, f);
            }
            path.pop();
        }
        let mut p = Vec::new();
        go(self, &mut p, f);
    }
    pub fn walk_mut(&mut self, f: &mut dyn FnMut(&mut Elem)) {
        f(self);
        for i in self.items.iter_mut() {
            if let Item::Elem(e) = i {
                e.walk_mut(f);
            }
        }
    }
    /// merge adjacent Text items and drop empty ones so that the AST is what a parser sees
    pub fn normalize(&mut self) {
        let mut out: Vec<Item> = Vec::with_capacity(self.items.len());
        for it in self.items.drain(..) {
            match it {
                Item::Text(t) => {
                    if t.is_empty() {
                        continue;
                    }
                    if let Some(Item::Text(prev)) = out.last_mut() {
                        prev.push_str(&t);
                    } else {
                        out.push(Item::Text(t));
                    }
                }
                Item::Elem(mut e) => {
                    e.normalize();
                    out.push(Item::Elem(e));
                }
                other => out.push(other),
            }
        }
        self.items = out;
    }
}

impl Doc {
    pub fn plain(root: Elem) -> Doc {
        Doc {
            root,
            pre: vec![],
            post: vec![],
            decl: false,
            doctype: 0,
        }
    }
}

// ---------------------------------------------------------------------------------------
// Serializer with surface variation
// ---------------------------------------------------------------------------------------

/// how a document is written; none of this may influence the schema
#[derive(Clone, Debug, Serialize, Deserialize)]
pub struct Surface {
    pub seed: u64,
    /// 0: always `<x/>`, 1: always `<x></x>`, 2: mixed by seed
    pub empty_style: u8,
    /// vary quotes / blanks inside tags / character references
    pub fancy: bool,
    /// what precedes the document: 0 nothing, 1 blanks, 2 a UTF-8 byte order mark, 3 BOM + blanks
    #[serde(default)]
    pub lead: u8,
}

impl Surface {
    pub fn plain() -> Surface {
        Surface {
            seed: 0,
            empty_style: 0,
            fancy: false,
            lead: 0,
        }
    }
    pub fn seeded(seed: u64) -> Surface {
        Surface {
            seed,
            empty_style: 2,
            fancy: true,
            lead: 0,
        }
    }
    /// seeded surface that may also put blanks / a byte order mark in front of the document
    pub fn seeded_with_lead(seed: u64) -> Surface {
        let lead = match seed % 10 {
            0 | 1 => 1,
            2 => 2,
            3 => 3,
            _ => 0,
        };
        Surface { lead, ..Surface::seeded(seed) }
    }
}

fn escape_text(s: &str, r: &mut Rng, fancy: bool, out: &mut String) {
    for c in s.chars() {
        match c {
            '&' => out.push_str("&amp;"),
            '<' => out.push_str("&lt;"),
            '>' => out.push_str("&gt;"),
            _ => {
                if fancy && c.is_ascii_alphanumeric() && r.chance(1, 12) {
                    if r.chance(1, 2) {
                        out.push_str(&format!("&#{};", c as u32));
                    } else {
                        out.push_str(&format!("&#x{:X};", c as u32));
                    }
                } else {
                    out.push(c)
                }
            }
        }
    }
}

fn escape_attr(s: &str, q: char, r: &mut Rng, fancy: bool, out: &mut String) {
    for c in s.chars() {
        match c {
            '&' => out.push_str("&amp;"),
            '<' => out.push_str("&lt;"),
            '"' if q == '"' => out.push_str("&quot;"),
            '\'' if q == '\'' => out.push_str("&apos;"),
            '\n' => out.push_str("&#10;"),
            '\t' => out.push_str("&#9;"),
            _ => {
                if fancy && c.is_ascii_alphanumeric() && r.chance(1, 12) {
                    out.push_str(&format!("&#x{:x};", c as u32));
                } else {
                    out.push(c)
                }
            }
        }
    }
}

fn blank(r: &mut Rng, fancy: bool, out: &mut String, at_least_one: bool) {
    if !fancy {
        if at_least_one {
            out.push(' ');
        }
        return;
    }
    let n = if at_least_one { r.range(1, 2) } else { r.below(3) / 2 };
    for _ in 0..n {
        out.push(*r.pick(&[' ', ' ', ' ', '\n', '\t']));
    }
}

fn write_misc(it: &Item, out: &mut String) {
    match it {
        Item::Comment(c) => {
            out.push_str("<!--");
            out.push_str(c);
            out.push_str("-->");
        }
        Item::PI(p) => {
            out.push_str("<?");
            out.push_str(p);
            out.push_str("?>");
        }
        _ => {}
    }
}

pub fn write_elem(e: &Elem, s: &Surface, r: &mut Rng, out: &mut String) {
    out.push('<');
    out.push_str(&e.name);
    for (k, v) in &e.attrs {
        blank(r, s.fancy, out, true);
        out.push_str(k);
        if s.fancy && r.chance(1, 8) {
            out.push(' ');
        }
        out.push('=');
        if s.fancy && r.chance(1, 8) {
            out.push(' ');
        }
        let q = if s.fancy && r.chance(1, 3) { '\'' } else { '"' };
        out.push(q);
        escape_attr(v, q, r, s.fancy, out);
        out.push(q);
    }
    blank(r, s.fancy, out, false);
    if e.items.is_empty() {
        let selfclose = match s.empty_style {
            0 => true,
            1 => false,
            _ => r.chance(1, 2),
        };
        if selfclose {
            out.push_str("/>");
            return;
        }
    }
    out.push('>');
    for it in &e.items {
        match it {
            Item::Elem(c) => write_elem(c, s, r, out),
            Item::Text(t) => escape_text(t, r, s.fancy, out),
            Item::RawText(t) => out.push_str(t),
            Item::CData(c) => {
                out.push_str("<![CDATA[");
                out.push_str(c);
                out.push_str("]]>");
            }
            other => write_misc(other, out),
        }
    }
    out.push_str("</");
    out.push_str(&e.name);
    if s.fancy && r.chance(1, 10) {
        out.push(' ');
    }
    out.push('>');
}

pub fn write_doc(d: &Doc, s: &Surface) -> String {
    let mut r = Rng::new(s.seed);
    let mut out = String::new();
    if s.lead >= 2 {
        out.push('\u{FEFF}');
    }
    if s.lead == 1 || s.lead == 3 {
        out.push_str(*r.pick(&[" ", "\n", "\n    ", "\t\r\n", "      "]));
    }
    if d.decl && s.lead != 1 && s.lead != 3 {
        out.push_str("<?xml version=\"1.0\" encoding=\"UTF-8\"?>");
        if s.fancy && r.chance(1, 2) {
            out.push('\n');
        }
    }
    // raw text may refer to the entity `e`: the internal subset that declares it is then mandatory
    let doctype_kind = if d.root.has_raw_text() { 2 } else { d.doctype };
    let mut doctype_done = doctype_kind == 0;
    let dt = |out: &mut String, name: &str, kind: u8| {
        if kind == 1 {
            out.push_str(&format!("<!DOCTYPE {}>", name));
        } else {
            out.push_str(&format!(
                "<!DOCTYPE {} [<!ELEMENT {} ANY><!ENTITY e \"v\">]>",
                name, name
            ));
        }
    };
    // the doctype goes after a random number of prolog items
    let dt_at = if d.pre.is_empty() { 0 } else { r.below(d.pre.len() + 1) };
    for (i, it) in d.pre.iter().enumerate() {
        if !doctype_done && i == dt_at {
            dt(&mut out, &d.root.name, doctype_kind);
            doctype_done = true;
        }
        write_misc(it, &mut out);
        if s.fancy && r.chance(1, 2) {
            out.push('\n');
        }
    }
    if !doctype_done {
        dt(&mut out, &d.root.name, doctype_kind);
        if s.fancy && r.chance(1, 2) {
            out.push('\n');
        }
    }
    write_elem(&d.root, s, &mut r, &mut out);
    for it in d.post.iter() {
        if s.fancy && r.chance(1, 2) {
            out.push('\n');
        }
        write_misc(it, &mut out);
    }
    if s.fancy && r.chance(1, 3) {
        out.push('\n');
    }
    out
}

// ---------------------------------------------------------------------------------------
// Name pools
// ---------------------------------------------------------------------------------------

pub const PLAIN: &[&str] = &["a", "b", "c", "d", "e", "item", "name", "value", "id", "list", "entry", "data"];

pub const KEYWORDS: &[&str] = &[
    "type", "self", "Self", "crate", "super", "loop", "match", "fn", "struct", "impl", "mod", "use", "as", "in",
    "ref", "move", "async", "await", "dyn", "abstract", "box", "try", "yield", "macro", "union", "static", "Type",
    "SELF", "Loop", "TRY", "where", "while", "true", "false", "enum", "trait", "unsafe", "pub", "priv", "final",
    "override", "virtual", "typeof", "unsized", "become", "do", "gen", "raw", "auto", "default",
];

pub const SHADOW: &[&str] = &["String", "string", "STRING", "Option", "option", "Vec", "vec", "Box", "str", "Result", "Some", "None", "Default", "Clone", "Serialize", "Deserialize", "serde"];

pub const CASE_VARIANTS: &[&str] = &["Foo", "foo", "FOO", "fOO", "fooBar", "FooBar", "foo_bar", "foo-bar", "foo.bar", "FOO_BAR", "Foobar", "foobar"];

pub const SEPARATORS: &[&str] = &["a-b", "a.b", "a_b", "aB", "AB", "A_B", "a--b", "a-.b", "a_-b", "ab", "Ab", "a-b-c", "a.b.c", "a_b_c", "aBC", "ABc"];

pub const PREFIXED: &[&str] = &["xsi:nil", "xsi:type", "xsi:schemaLocation", "xlink:href", "K:u", "ȺȺ:x", "ΩΩ:a", "İ:a", "ẞ:b", "Å:c", "p:x", "q:x", "p:a", "ns:item", "p:type", "xml:lang", "xml:space", "p:a-b", "P:X", "p:String"];

pub const XMLNS: &[&str] = &["xmlns", "xmlns:p", "xmlns:q", "xmlns:xsi"];

pub const CONCAT: &[&str] = &["a_option", "AOption", "aOption", "b_vec", "BVec", "item_string", "ItemString", "a_self", "ASelf", "ListOption", "list_vec", "Total", "Price", "TotalPrice", "total", "price", "total-price", "Totalprice", "P", "rice", "TotalP", "A", "B", "AB", "Ab"];

pub const SUFFIXY: &[&str] = &["text", "text_content", "text_content_1", "x", "x_attr", "x_1", "x_2", "x_attr_1", "a_1", "a1", "a-1", "b2", "Text", "TEXT", "text-content"];

pub const UNDERSCORE: &[&str] = &["_a", "a_", "_x_", "__a", "a__b", "_type", "_Type", "_ref", "__loop", "_self", "_id", "type_"];

pub const NONASCII: &[&str] = &[
    "Ⅳ", "Ⅻa", "aⅣb", "ΟΔΟΣ", "ıI", "ǈ", "ﬅ", "σς", "ǉ", "ŉ", "ǰ", "𐐀𐐩", "𐐨", "𝒳", "e\u{301}", "E\u{301}cole", "Åb", "ǅ", "ǲ", "ΐ", "ﬃ", "ẞ", "ǆx", "Ω", "ω",
    "Имя", "имя", "ИМЯ", "Коммерческая", "Ελληνικά", "ελληνικά", "straße", "Straße", "İstanbul", "ǆ", "ǅ", "日本", "名前", "データ", "élan", "Élan", "naïve", "ÀB", "àb", "ß", "ﬁ",
];

#[derive(Clone, Copy, Debug, PartialEq)]
pub enum Pool {
    Plain,
    Adversarial,
    Mixed,
    /// restricted to what the serde-xml-rs preset property allows (no prefixes / xmlns)
    NoNamespace,
    /// names whose identifiers collide (separator / case variants, suffix look-alikes)
    Collide,
    /// large vocabulary: numbered names, very long names, a few from the other families
    Synthetic,
    /// one identifier family with its generated-suffix look-alikes: foo / Foo / FOO next to foo_1,
    /// foo_attr, foo_attr_1, foo_attr_2 ... (collisions between generated and literal suffixes)
    SuffixClash,
    /// reserved type names next to names that equal parent + reserved name
    ReservedConcat,
}

const SYNTHETIC: &[&str] = &[
    "n0", "n1", "n2", "n3", "n4", "n5", "n6", "n7", "n8", "n9", "n10", "n11", "n12", "n13", "n14", "n15", "n16", "n17", "n18", "n19",
    "n20", "n21", "n22", "n23", "n24", "n25", "n26", "n27", "n28", "n29", "n30", "n31", "n32", "n33", "n34", "n35", "n36", "n37", "n38", "n39",
    "n40", "n41", "n42", "n43", "n44", "n45", "n46", "n47", "n48", "n49", "n50", "n51", "n52", "n53", "n54", "n55", "n56", "n57", "n58", "n59",
    "row18446744073709551616", "k99999999999999999999999", "n340282366920938463463374607431768211456", "n1a", "n1_note", "n2b", "line2", "line10", "line1a", "item2", "item10", "item1x", "n60", "n61", "n62", "n63", "n64", "n65", "n66", "n67", "n68", "n69", "n255", "n256", "n257", "n65535", "n65536",
    "aVeryLongElementNameThatGoesOnAndOnAndOnAndOnAndOnAndOnAndOnAndOnAndOnAndOnAndOnAndOnAndOnAndOnAndOnAndOnAndOnAndOnAndOnAndOn",
    "another_very_long_name_with_underscores_that_is_longer_than_sixty_four_bytes_for_sure_and_then_some_more_to_pass_128_bytes_in_total_length_ok",
    "x-y-z-x-y-z-x-y-z-x-y-z-x-y-z-x-y-z-x-y-z-x-y-z-x-y-z-x-y-z-x-y-z-x-y-z-x-y-z-x-y-z-x-y-z-x-y-z-x-y-z-x-y-z-x-y-z-x-y-z-x-y-z-x-y-z-x-y-z-x-y-z-x-y-z-x-y-z-x-y-z-x-y-z-x-y-z-x-y-z-x-y-z-x-y-z-x-y-z-x-y-z-x-y-z-x-y-z-x-y-z-x-y-z-x-y-z",
    "ééééééééééééééééééééééééééééééééé", "p:n1", "q:n2", "type", "Self", "a-b", "a_b",
];

pub fn pool_names(pool: Pool, for_attrs: bool) -> Vec<&'static str> {
    let mut v: Vec<&'static str> = Vec::new();
    match pool {
        Pool::Synthetic => {
            v.extend_from_slice(SYNTHETIC);
            v.extend_from_slice(PLAIN);
        }
        Pool::ReservedConcat => {
            v.extend_from_slice(&["a", "b", "option", "Option", "vec", "string", "self", "a_option", "AOption", "b_option", "a_vec", "AVec", "a_string", "a_self", "b_vec", "BString", "option_a", "OptionA"]);
        }
        Pool::SuffixClash => {
            v.extend_from_slice(&["foo", "Foo", "FOO", "fOO", "foo_1", "foo_2", "foo_attr", "foo_attr_1", "foo_attr_2", "foo_3", "text", "text_content", "Text", "text_content_1", "foo_attr_3"]);
        }
        Pool::Plain => v.extend_from_slice(PLAIN),
        Pool::Collide => {
            v.extend_from_slice(SEPARATORS);
            v.extend_from_slice(CASE_VARIANTS);
            v.extend_from_slice(SUFFIXY);
            v.extend_from_slice(&["a", "b", "A", "X", "type", "Type", "p:a-b", "q:a_b", "foo_1", "Foo_1", "a_b_1", "a-b-1", "item", "Item", "item_1", "x_attr_1"]);
        }
        Pool::Adversarial | Pool::Mixed | Pool::NoNamespace => {
            v.extend_from_slice(PLAIN);
            v.extend_from_slice(KEYWORDS);
            v.extend_from_slice(SHADOW);
            v.extend_from_slice(CASE_VARIANTS);
            v.extend_from_slice(SEPARATORS);
            v.extend_from_slice(CONCAT);
            v.extend_from_slice(SUFFIXY);
            v.extend_from_slice(UNDERSCORE);
            v.extend_from_slice(NONASCII);
            if pool != Pool::NoNamespace {
                v.extend_from_slice(PREFIXED);
                if for_attrs {
                    v.extend_from_slice(XMLNS);
                }
            }
        }
    }
    v
}

/// draw a vocabulary of `n` distinct names; `Mixed` takes about half from the plain pool
pub fn vocabulary(r: &mut Rng, pool: Pool, for_attrs: bool, n: usize) -> Vec<String> {
    let all = pool_names(pool, for_attrs);
    let mut out: Vec<String> = Vec::new();
    let mut guard = 0;
    while out.len() < n && guard < 1000 {
        guard += 1;
        let cand = if pool == Pool::Mixed && r.chance(1, 2) {
            *r.pick(PLAIN)
        } else if (pool == Pool::Adversarial || pool == Pool::NoNamespace) && r.chance(1, 3) {
            // draw a whole collision family so that collisions are likely
            let fam: &[&str] = match r.below(6) {
                0 => SEPARATORS,
                1 => CASE_VARIANTS,
                2 => CONCAT,
                3 => SUFFIXY,
                4 => KEYWORDS,
                _ => SHADOW,
            };
            *r.pick(fam)
        } else {
            *r.pick(&all)
        };
        if !out.iter().any(|x| x == cand) {
            out.push(cand.to_string());
        }
    }
    out
}

// ---------------------------------------------------------------------------------------
// Random documents and histories
// ---------------------------------------------------------------------------------------

#[derive(Clone, Debug)]
pub struct Profile {
    pub pool: Pool,
    pub max_depth: usize,
    pub max_children: usize,
    pub n_elem_names: (usize, usize),
    pub n_attr_names: (usize, usize),
    pub n_docs: (usize, usize),
    /// out of 16
    pub p_text: usize,
    pub p_cdata: usize,
    pub p_misc: usize,
    /// pretty-print whitespace between children (creates whitespace-only text nodes)
    pub p_ws: usize,
    /// forbid an element occurrence holding both non-whitespace text and children
    pub data_oriented: bool,
    /// keep same-named children adjacent
    pub adjacent_repeats: bool,
    /// attribute names of an element disjoint from its child names
    pub attrs_disjoint_children: bool,
    /// comments/PIs never inside text runs, no CDATA mixed with text (serde-xml-rs workload)
    pub calm_text: bool,
    /// unique value tokens (C02/C13)
    pub unique_values: bool,
    /// upper bound on the number of elements of one document
    pub max_elems: usize,
}

impl Profile {
    pub fn general() -> Profile {
        Profile {
            pool: Pool::Mixed,
            max_depth: 5,
            max_children: 5,
            n_elem_names: (2, 5),
            n_attr_names: (0, 4),
            n_docs: (1, 4),
            p_text: 4,
            p_cdata: 1,
            p_misc: 1,
            p_ws: 2,
            data_oriented: false,
            adjacent_repeats: false,
            attrs_disjoint_children: false,
            calm_text: false,
            unique_values: false,
            max_elems: 300,
        }
    }
    pub fn tiny() -> Profile {
        Profile {
            pool: Pool::Plain,
            max_depth: 3,
            max_children: 4,
            n_elem_names: (2, 3),
            n_attr_names: (0, 2),
            n_docs: (1, 3),
            ..Profile::general()
        }
    }
    /// many siblings / attributes per element
    pub fn wide() -> Profile {
        Profile {
            pool: Pool::Synthetic,
            max_depth: 3,
            max_children: 48,
            n_elem_names: (8, 40),
            n_attr_names: (6, 40),
            n_docs: (1, 3),
            ..Profile::general()
        }
    }
    /// deep nesting with few names (the same name at many depths and under itself)
    pub fn deep() -> Profile {
        Profile {
            pool: Pool::Mixed,
            max_depth: 28,
            max_children: 2,
            max_elems: 90,
            n_elem_names: (1, 3),
            n_attr_names: (0, 2),
            n_docs: (1, 3),
            ..Profile::general()
        }
    }
    /// long lists: one parent occurring hundreds of times with varying child subsets
    pub fn long_list() -> Profile {
        Profile {
            pool: Pool::Plain,
            max_depth: 3,
            max_children: 600,
            max_elems: 900,
            n_elem_names: (1, 3),
            n_attr_names: (0, 3),
            n_docs: (1, 2),
            ..Profile::general()
        }
    }
    /// many documents
    pub fn many_docs() -> Profile {
        Profile {
            n_docs: (7, 16),
            max_depth: 3,
            max_children: 4,
            ..Profile::tiny()
        }
    }
    pub fn adversarial() -> Profile {
        Profile {
            pool: Pool::Adversarial,
            max_depth: 4,
            max_children: 5,
            n_elem_names: (2, 7),
            n_attr_names: (0, 5),
            ..Profile::general()
        }
    }
}

pub struct HistoryGen<'a> {
    pub r: &'a mut Rng,
    pub p: &'a Profile,
    pub elem_names: Vec<String>,
    pub attr_names: Vec<String>,
    pub value_counter: usize,
    pub value_tag: String,
    pub elems_left: usize,
}

const TEXTS: &[&str] = &["t", "hello", "x y", " padded ", "1", "a&b", "<tag>", "ünï", "0.5", "true", "]]", "\"q\"", "'"];
const WS: &[&str] = &[" ", "\n", "\n  ", "\t", "\n\n", "  \n    "];

impl<'a> HistoryGen<'a> {
    pub fn new(r: &'a mut Rng, p: &'a Profile, value_tag: &str) -> HistoryGen<'a> {
        let ne = r.range(p.n_elem_names.0, p.n_elem_names.1);
        let na = r.range(p.n_attr_names.0, p.n_attr_names.1);
        let elem_names = vocabulary(r, p.pool, false, ne);
        let attr_names = vocabulary(r, p.pool, true, na);
        HistoryGen {
            r,
            p,
            elem_names,
            attr_names,
            value_counter: 0,
            value_tag: value_tag.to_string(),
            elems_left: p.max_elems,
        }
    }

    fn value(&mut self) -> String {
        if self.p.unique_values {
            self.value_counter += 1;
            let base = format!("v{}_{}", self.value_tag, self.value_counter);
            match self.r.below(8) {
                0 => format!("{} &<>", base),
                1 => format!("{}é日", base),
                2 => format!("{} \"q\" 'a'", base),
                3 => format!("{} x  y", base),
                _ => base,
            }
        } else {
            match self.r.below(6) {
                0 => String::new(),
                _ => self.r.pick(TEXTS).to_string(),
            }
        }
    }

    /// long text with multi-byte characters at arbitrary byte offsets
    fn long_text(&mut self) -> String {
        let n = self.r.range(20, 160);
        let mut s = String::new();
        for _ in 0..n {
            match self.r.below(12) {
                0 => s.push('é'),
                1 => s.push('日'),
                2 => s.push('😀'),
                3 => s.push(' '),
                _ => s.push(*self.r.pick(&['x', 'y', 'z', '1', '.'])),
            }
        }
        s
    }

    fn text_item(&mut self) -> Item {
        if !self.p.unique_values && !self.p.calm_text {
            match self.r.below(12) {
                0 => return Item::RawText(self.r.pick(&["&e;", "a &e; b", "&e;&e;", "x&e;"]).to_string()),
                1 => return Item::Text(self.long_text()),
                _ => {}
            }
        }
        Item::Text(self.text())
    }

    fn text(&mut self) -> String {
        if self.p.unique_values {
            let v = self.value();
            match self.r.below(6) {
                0 => format!("  {}  ", v),
                1 => format!("\n{}\n", v),
                _ => v,
            }
        } else {
            self.r.pick(TEXTS).to_string()
        }
    }

    fn misc(&mut self) -> Item {
        if self.r.chance(2, 3) {
            Item::Comment(self.r.pick(&[" c ", "", "<x a='1'>", " - ", "&amp; &bad", "?>", "<![CDATA["]).to_string())
        } else {
            Item::PI(self.r.pick(&["pi", "pi data", "xml-stylesheet href=\"a.xsl\"", "p <x/>", "php echo '>' "]).to_string())
        }
    }

    pub fn elem(&mut self, name: &str, depth: usize) -> Elem {
        let mut e = Elem::new(name);
        // attributes: random subset in random order
        let mut attrs: Vec<String> = self.attr_names.clone();
        self.r.shuffle(&mut attrs);
        let keep_p = self.r.range(0, 4);
        for a in attrs {
            if self.r.chance(keep_p, 4) {
                let v = self.value();
                e.attrs.push((a, v));
            }
        }
        // children
        self.elems_left = self.elems_left.saturating_sub(1);
        let budget = if depth >= self.p.max_depth || self.elems_left == 0 {
            0
        } else {
            let m = self.p.max_children;
            if self.p.max_depth > 12 {
                // deep profile: keep going down most of the time
                if self.r.chance(1, 12) { 0 } else { self.r.range(1, m) }
            } else if m > 100 {
                // long lists: only the top levels are long
                if depth == 1 { self.r.range(m / 3, m) } else { self.r.range(0, 3) }
            } else {
                match self.r.below(8) {
                    0 | 1 => 0,
                    2 | 3 => self.r.range(0, 1.min(m)),
                    4 | 5 => self.r.range(0, 2.min(m)),
                    _ => self.r.range(0, m),
                }
            }
        };
        let mut child_names: Vec<String> = Vec::new();
        let budget = budget.min(self.elems_left);
        for _ in 0..budget {
            let n = self.r.pick(&self.elem_names).clone();
            if self.p.attrs_disjoint_children && e.attrs.iter().any(|(k, _)| *k == n) {
                continue;
            }
            child_names.push(n);
        }
        if self.p.adjacent_repeats {
            // stable grouping by first appearance
            let mut grouped: Vec<String> = Vec::new();
            for n in child_names.iter() {
                if !grouped.contains(n) {
                    for m in child_names.iter().filter(|m| *m == n) {
                        grouped.push(m.clone());
                    }
                }
            }
            child_names = grouped;
        }
        let has_children = !child_names.is_empty();
        let want_text = self.r.chance(self.p.p_text, 16);
        let want_cdata = self.r.chance(self.p.p_cdata, 16);
        let pretty = has_children && self.r.chance(self.p.p_ws, 16);
        let sig_text_allowed = !(self.p.data_oriented && has_children);

        if has_children {
            for n in child_names {
                if pretty {
                    e.items.push(Item::Text(self.r.pick(WS).to_string()));
                }
                if sig_text_allowed && want_text && self.r.chance(1, 3) {
                    let t = self.text_item();
                    e.items.push(t);
                }
                if sig_text_allowed && want_cdata && self.r.chance(1, 3) {
                    let t = self.text();
                    e.items.push(Item::CData(t.replace("]]>", "]] >")));
                }
                if !self.p.calm_text && self.r.chance(self.p.p_misc, 16) {
                    let m = self.misc();
                    e.items.push(m);
                }
                let c = self.elem(&n, depth + 1);
                e.items.push(Item::Elem(c));
            }
            if pretty {
                e.items.push(Item::Text(self.r.pick(WS).to_string()));
            }
            if self.p.calm_text && self.r.chance(self.p.p_misc, 16) {
                // only where it cannot split text: directly before the end tag of an element with children
                if !matches!(e.items.last(), Some(Item::Text(_))) {
                    let m = self.misc();
                    e.items.push(m);
                }
            }
        } else {
            if want_text {
                let t = self.text_item();
                e.items.push(t);
                if !self.p.calm_text && self.r.chance(1, 6) {
                    let m = self.misc();
                    e.items.push(m);
                    let t = self.text();
                    e.items.push(Item::Text(t));
                }
            }
            if want_cdata && !(self.p.calm_text && want_text) {
                let t = if self.r.chance(1, 8) && !self.p.unique_values { String::new() } else { self.text() };
                e.items.push(Item::CData(t.replace("]]>", "]] >")));
            }
            if !want_text && !want_cdata && !self.p.calm_text && self.r.chance(self.p.p_misc, 32) {
                // comment-only element: structurally empty
                let m = self.misc();
                e.items.push(m);
            }
        }
        e.normalize();
        e
    }

    pub fn doc(&mut self, root_name: &str) -> Doc {
        self.elems_left = self.p.max_elems;
        let root = self.elem(root_name, 1);
        let mut d = Doc::plain(root);
        if self.r.chance(1, 4) {
            d.decl = true;
        }
        if self.r.chance(1, 8) {
            d.doctype = self.r.range(1, 2) as u8;
        }
        if self.r.chance(self.p.p_misc, 16) {
            let m = self.misc();
            d.pre.push(m);
        }
        if self.r.chance(self.p.p_misc, 16) {
            let m = self.misc();
            d.post.push(m);
        }
        d
    }

    pub fn history(&mut self) -> Vec<Doc> {
        let n = self.r.range(self.p.n_docs.0, self.p.n_docs.1);
        let root_name = self.r.pick(&self.elem_names).clone();
        (0..n).map(|_| self.doc(&root_name)).collect()
    }
}

/// one random history from (seed, label, index)
pub fn random_history(r: &mut Rng, p: &Profile, tag: &str) -> Vec<Doc> {
    let mut g = HistoryGen::new(r, p, tag);
    g.history()
}

// ---------------------------------------------------------------------------------------
// Bounded exhaustive enumeration of tiny documents
// ---------------------------------------------------------------------------------------

/// All element trees named `name` with at most `budget` elements below, children drawn from `names`,
/// depth <= `depth`, each element optionally carrying attribute "k" (if `attrs`) — used to enumerate
/// small histories completely.
pub fn enumerate_elems(name: &str, names: &[&str], budget: usize, depth: usize, attrs: bool, text: bool) -> Vec<Elem> {
    // sequences of children consuming exactly up to `budget` elements
    fn child_seqs(names: &[&str], budget: usize, depth: usize, attrs: bool, text: bool) -> Vec<Vec<Elem>> {
        let mut out = vec![vec![]];
        if budget == 0 || depth == 0 {
            return out;
        }
        for n in names {
            for used in 1..=budget {
                // first child uses `used` elements in total (itself + below)
                for first in enumerate_exact(n, names, used - 1, depth - 1, attrs, text) {
                    for rest in child_seqs(names, budget - used, depth, attrs, text) {
                        let mut v = vec![first.clone()];
                        v.extend(rest);
                        out.push(v);
                    }
                }
            }
        }
        out
    }
    /// trees rooted at `name` with exactly `below` descendants
    fn enumerate_exact(name: &str, names: &[&str], below: usize, depth: usize, attrs: bool, text: bool) -> Vec<Elem> {
        let mut out = Vec::new();
        for seq in child_seqs(names, below, depth, attrs, text) {
            let total: usize = seq.iter().map(|e| e.count_elems()).sum();
            if total != below {
                continue;
            }
            let variants_attr: &[bool] = if attrs { &[false, true] } else { &[false] };
            let variants_text: &[bool] = if text { &[false, true] } else { &[false] };
            for &a in variants_attr {
                for &t in variants_text {
                    let mut e = Elem::new(name);
                    if a {
                        e.attrs.push(("k".to_string(), "v".to_string()));
                    }
                    if t {
                        e.items.push(Item::Text("t".into()));
                    }
                    for c in &seq {
                        e.items.push(Item::Elem(c.clone()));
                    }
                    out.push(e);
                }
            }
        }
        out
    }
    let mut out = Vec::new();
    for b in 0..=budget {
        out.extend(enumerate_exact(name, names, b, depth, attrs, text));
    }
    out
}

// ---------------------------------------------------------------------------------------
// Rewrites that must not change the output (C11) and value substitution
// ---------------------------------------------------------------------------------------

/// rewrite incidental detail: attribute values, text content (keeping whitespace-only-ness),
/// text <-> CDATA, comments / PIs inserted or removed, prolog changes.
pub fn rewrite_incidental(d: &Doc, r: &mut Rng) -> Doc {
    fn is_ws(s: &str) -> bool {
        s.chars().all(|c| c.is_whitespace())
    }
    fn rw(e: &Elem, r: &mut Rng) -> Elem {
        let mut n = Elem::new(&e.name);
        for (k, v) in &e.attrs {
            let nv = match r.below(4) {
                0 => v.clone(),
                1 => String::new(),
                2 => "other & <value> \"'".to_string(),
                _ => format!("{}x", v),
            };
            n.attrs.push((k.clone(), nv));
        }
        let mut items: Vec<Item> = Vec::new();
        let maybe_misc = |items: &mut Vec<Item>, r: &mut Rng| {
            if r.chance(1, 5) {
                if r.chance(1, 2) {
                    items.push(Item::Comment(" inserted ".into()));
                } else {
                    items.push(Item::PI("ins erted".into()));
                }
            }
        };
        for it in &e.items {
            maybe_misc(&mut items, r);
            match it {
                Item::Elem(c) => items.push(Item::Elem(rw(c, r))),
                Item::Text(t) => {
                    if is_ws(t) {
                        // whitespace stays whitespace (other whitespace)
                        items.push(Item::Text(if r.chance(1, 2) { t.clone() } else { "\n \t".to_string() }));
                    } else {
                        match r.below(7) {
                            0 => items.push(Item::Text(t.clone())),
                            5 => items.push(Item::RawText("now &e; raw".into())),
                            6 => items.push(Item::Text("long text with multi-byte characters: ééééééééééééééééééééééééééééééééééééééééééééééééééééééééééééééééééééé 日日日日日日日日日日日日日日日日日日日".into())),
                            1 => items.push(Item::Text("replaced".into())),
                            2 => items.push(Item::CData("cdata <&> content".into())),
                            3 => {
                                items.push(Item::Text("split".into()));
                                items.push(Item::CData("part".into()));
                            }
                            _ => {
                                items.push(Item::Text("one".into()));
                                items.push(Item::Comment("c".into()));
                                items.push(Item::Text("two".into()));
                            }
                        }
                    }
                }
                Item::RawText(t) => match r.below(3) {
                    0 => items.push(Item::RawText(t.clone())),
                    1 => items.push(Item::Text("was raw".into())),
                    _ => items.push(Item::CData("was raw".into())),
                },
                Item::CData(c) => match r.below(4) {
                    0 => items.push(Item::CData(c.clone())),
                    1 => items.push(Item::CData("z".into())),
                    2 => items.push(Item::Text("was cdata".into())),
                    _ => {
                        items.push(Item::CData("a".into()));
                        items.push(Item::CData("b".into()));
                    }
                },
                Item::Comment(_) | Item::PI(_) => {
                    // keep, drop or replace
                    match r.below(3) {
                        0 => items.push(it.clone()),
                        1 => {}
                        _ => items.push(Item::Comment("other".into())),
                    }
                }
            }
        }
        maybe_misc(&mut items, r);
        n.items = items;
        n
    }
    let mut root = rw(&d.root, r);
    root.normalize();
    let mut out = Doc::plain(root);
    out.decl = r.chance(1, 2);
    out.doctype = r.below(3) as u8;
    if r.chance(1, 3) {
        out.pre.push(Item::Comment(" pre ".into()));
    }
    if r.chance(1, 4) {
        out.pre.push(Item::PI("pre pi".into()));
    }
    if r.chance(1, 3) {
        out.post.push(Item::Comment(" post ".into()));
    }
    out
}

// ---------------------------------------------------------------------------------------
// Hostile byte inputs (C07 / C08)
// ---------------------------------------------------------------------------------------

const PUNCT: &[u8] = b"<>/&;:=\"'!?[]- \n\t";

pub fn mutate_bytes(src: &[u8], r: &mut Rng) -> Vec<u8> {
    let mut v = src.to_vec();
    let n_mut = 1 + r.below(4);
    for _ in 0..n_mut {
        if v.is_empty() {
            v.push(*r.pick(PUNCT));
            continue;
        }
        let i = r.below(v.len());
        match r.below(14) {
            0 => {
                v[i] ^= 1 << r.below(8);
            }
            1 => {
                v[i] = *r.pick(&[0xFFu8, 0xC0, 0x80, 0xFE, 0xED, 0xF5, 0x00]);
            }
            2 => {
                v.insert(i, *r.pick(PUNCT));
            }
            3 => {
                v.remove(i);
            }
            4 => {
                v.truncate(i);
            }
            5 => {
                // duplicate a slice
                let span = 1 + r.below(24);
                let j = (i + span).min(v.len());
                let s: Vec<u8> = v[i..j].to_vec();
                let at = r.below(v.len() + 1);
                for (k, b) in s.into_iter().enumerate() {
                    v.insert(at + k, b);
                }
            }
            6 => {
                // delete a slice
                let span = 1 + r.below(24);
                let j = (i + span).min(v.len());
                v.drain(i..j);
            }
            7 => {
                // swap two bytes
                let j = r.below(v.len());
                v.swap(i, j);
            }
            8 => {
                // insert a hostile token
                const TOKS: &[&[u8]] = &[
                    b"<!--", b"-->", b"<![CDATA[", b"]]>", b"<?", b"?>", b"<!DOCTYPE", b"</", b"/>", b"&#x;", b"&amp;", b"&;", b"xmlns:", b":", b"::", b"=\"\"", b"<:>", b"<a:>", b"<:a>", b"</>", b"<>", b"< >", b"\xEF\xBB\xBF", b"<a a='1' a='2'>", b"<a b>", b"<a b=c>", b"<a 'x'>", b"\xC3", b"\xE2\x82", b"<\xC3\x28/>", b"<!", b"<!>", b"<!ELEMENT", b"<!-", b"--",
                ];
                let tok: &[u8] = *r.pick(TOKS);
                for (k, b) in tok.iter().enumerate() {
                    v.insert(i + k, *b);
                }
            }
            9 => {
                // replace a name char with ':'
                v[i] = b':';
            }
            10 => {
                // put invalid UTF-8 into the byte after a '<' or '"' if any
                if let Some(p) = v.iter().skip(i).position(|b| *b == b'<' || *b == b'"' || *b == b' ') {
                    let at = (i + p + 1).min(v.len());
                    v.insert(at, *r.pick(&[0xFFu8, 0xC3, 0x80]));
                }
            }
            11 => {
                // truncate at a random point after the middle
                let cut = r.range(v.len() / 2, v.len());
                v.truncate(cut);
            }
            12 => {
                // delete one '>' or '"'
                if let Some(p) = v.iter().skip(i).position(|b| *b == b'>' || *b == b'"') {
                    v.remove(i + p);
                }
            }
            _ => {
                // splice a copy of the prefix
                let pre: Vec<u8> = v[..i].to_vec();
                v.extend(pre);
            }
        }
    }
    v
}

pub fn random_xmlish_bytes(r: &mut Rng, max_len: usize) -> Vec<u8> {
    let n = r.below(max_len + 1);
    let mut v = Vec::with_capacity(n);
    let alphabet: &[u8] = b"<<<>>>//ab:c=\"' !?-[]&;#x1\n";
    for _ in 0..n {
        match r.below(20) {
            0 => v.push(r.next() as u8),
            1 => v.push(*r.pick(&[0xFFu8, 0xC3, 0xA9, 0xE2, 0x82, 0xAC, 0x00])),
            _ => v.push(*r.pick(alphabet)),
        }
    }
    v
}

/// nesting ladder: depth `d` of nested elements with names from `names`
pub fn ladder(names: &[&str], d: usize, r: &mut Rng, close: bool) -> Vec<u8> {
    let mut s = String::new();
    let mut stack = Vec::new();
    for _ in 0..d {
        let n = *r.pick(names);
        s.push('<');
        s.push_str(n);
        if r.chance(1, 4) {
            s.push_str(" k=\"v\"");
        }
        s.push('>');
        stack.push(n);
    }
    if close {
        while let Some(n) = stack.pop() {
            s.push_str("</");
            s.push_str(n);
            s.push('>');
        }
    }
    s.into_bytes()
}

// ---------------------------------------------------------------------------------------
// Readers
// ---------------------------------------------------------------------------------------

/// BufRead that hands out seeded chunk lengths >= 1
pub struct ChunkyReader<'a> {
    data: &'a [u8],
    pos: usize,
    cur: usize,
    rng: Rng,
    max: usize,
}

impl<'a> ChunkyReader<'a> {
    pub fn new(data: &'a [u8], seed: u64, max: usize) -> ChunkyReader<'a> {
        ChunkyReader {
            data,
            pos: 0,
            cur: 0,
            rng: Rng::new(seed),
            max: max.max(1),
        }
    }
}

impl<'a> Read for ChunkyReader<'a> {
    fn read(&mut self, buf: &mut [u8]) -> std::io::Result<usize> {
        let avail = self.fill_buf()?;
        let n = avail.len().min(buf.len());
        buf[..n].copy_from_slice(&avail[..n]);
        self.consume(n);
        Ok(n)
    }
}

impl<'a> BufRead for ChunkyReader<'a> {
    fn fill_buf(&mut self) -> std::io::Result<&[u8]> {
        if self.cur == 0 {
            self.cur = 1 + self.rng.below(self.max);
        }
        let end = (self.pos + self.cur).min(self.data.len());
        Ok(&self.data[self.pos..end])
    }
    fn consume(&mut self, amt: usize) {
        self.pos = (self.pos + amt).min(self.data.len());
        if amt >= self.cur {
            self.cur = 0;
        } else {
            self.cur -= amt;
        }
    }
}

#[derive(Clone, Copy, Debug, PartialEq, Serialize, Deserialize)]
pub enum ReaderKind {
    Str,
    Slice,
    BufReader(usize),
    Chunky(u64, usize),
}

impl ReaderKind {
    pub fn random(r: &mut Rng) -> ReaderKind {
        match r.below(6) {
            0 | 1 => ReaderKind::Str,
            2 => ReaderKind::Slice,
            3 => ReaderKind::BufReader(*r.pick(&[1usize, 2, 3, 5, 7, 8, 16, 64, 4096])),
            _ => ReaderKind::Chunky(r.next(), *r.pick(&[1usize, 2, 3, 4, 7, 13, 64])),
        }
    }
    pub fn describe(&self) -> String {
        format!("{:?}", self)
    }
}

// ---------------------------------------------------------------------------------------
// XML text -> AST (for hand-written witnesses and demonstrations; not used as an oracle)
// ---------------------------------------------------------------------------------------

pub fn ast_from_xml(text: &str) -> Result<Doc, String> {
    use quick_xml::events::Event;
    let mut reader = quick_xml::reader::Reader::from_str(text);
    let mut stack: Vec<Elem> = Vec::new();
    let mut root: Option<Elem> = None;
    let mut doc = Doc::plain(Elem::new("?"));
    fn start(e: &quick_xml::events::BytesStart) -> Result<Elem, String> {
        let mut el = Elem::new(std::str::from_utf8(e.name().as_ref()).map_err(|e| e.to_string())?);
        for a in e.attributes() {
            let a = a.map_err(|e| e.to_string())?;
            let k = std::str::from_utf8(a.key.as_ref()).map_err(|e| e.to_string())?.to_string();
            let v = a.unescape_value().map_err(|e| e.to_string())?.to_string();
            el.attrs.push((k, v));
        }
        Ok(el)
    }
    loop {
        let ev = reader.read_event().map_err(|e| e.to_string())?;
        let mut push_item = |it: Item, stack: &mut Vec<Elem>, root: &Option<Elem>, doc: &mut Doc| {
            if let Some(top) = stack.last_mut() {
                top.items.push(it);
            } else if matches!(it, Item::Comment(_) | Item::PI(_)) {
                if root.is_none() {
                    doc.pre.push(it);
                } else {
                    doc.post.push(it);
                }
            }
        };
        match ev {
            Event::Start(e) => stack.push(start(&e)?),
            Event::Empty(e) => {
                let el = start(&e)?;
                if stack.is_empty() {
                    root = Some(el);
                } else {
                    stack.last_mut().unwrap().items.push(Item::Elem(el));
                }
            }
            Event::End(_) => {
                let el = stack.pop().ok_or("unbalanced end tag")?;
                if let Some(top) = stack.last_mut() {
                    top.items.push(Item::Elem(el));
                } else {
                    root = Some(el);
                }
            }
            Event::Text(t) => {
                let s = t.unescape().map_err(|e| e.to_string())?.to_string();
                push_item(Item::Text(s), &mut stack, &root, &mut doc);
            }
            Event::CData(c) => {
                let s = String::from_utf8(c.into_inner().to_vec()).map_err(|e| e.to_string())?;
                push_item(Item::CData(s), &mut stack, &root, &mut doc);
            }
            Event::Comment(c) => {
                let s = String::from_utf8(c.into_inner().to_vec()).map_err(|e| e.to_string())?;
                push_item(Item::Comment(s), &mut stack, &root, &mut doc);
            }
            Event::PI(p) => {
                let s = String::from_utf8(p.into_inner().to_vec()).map_err(|e| e.to_string())?;
                push_item(Item::PI(s), &mut stack, &root, &mut doc);
            }
            Event::Decl(_) => doc.decl = true,
            Event::DocType(_) => doc.doctype = 1,
            Event::Eof => break,
        }
    }
    let mut r = root.ok_or("no root element")?;
    r.normalize();
    doc.root = r;
    Ok(doc)
}
