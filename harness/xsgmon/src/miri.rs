//! Miri slices (thorough tier): the interpreter is the monitor — undefined behaviour, data races
//! and leaks in whatever the small `mirirun` workloads reach (quick-xml / memchr / std as driven by
//! this crate; the crate itself has no unsafe code).

use std::path::Path;
use std::process::{Command, Stdio};
use std::time::{Duration, Instant};

use serde_json::{json, Value};

use crate::report::{Report, VERIF};

fn miri_cmd(mode: &str, seed: u64, count: u64, miri_seed: u64) -> Command {
    let mut c = Command::new("cargo");
    c.args(["+nightly", "miri", "run", "--offline", "--quiet", "--manifest-path"])
        .arg(Path::new(VERIF).join("harness").join("mirirun").join("Cargo.toml"))
        .arg("--")
        .arg(mode)
        .arg(seed.to_string())
        .arg(count.to_string())
        .env("CARGO_TARGET_DIR", Path::new(VERIF).join("target").join("miri"))
        .env("CARGO_NET_OFFLINE", "true")
        .env("MIRIFLAGS", format!("-Zmiri-seed={} -Zmiri-preemption-rate=0.05", miri_seed))
        .stdout(Stdio::piped())
        .stderr(Stdio::piped());
    c
}

/// Runs `procs` interpreter processes of `count` cases each. Adds violations to `rep`; returns the
/// evidence fragment. A tool failure is reported as inconclusive for the slice, never as a violation.
pub fn slice(property: &str, mode: &str, seed: u64, procs: u64, count: u64, rep: &mut Report) -> Value {
    let started = Instant::now();
    // build once (serially) so that the parallel runs do not fight over the build lock
    match miri_cmd(mode, seed, 1, 0).output() {
        Ok(o) => {
            let err = String::from_utf8_lossy(&o.stderr);
            if !o.status.success() && !err.contains("Undefined Behavior") && !String::from_utf8_lossy(&o.stdout).contains("MIRIRUN") {
                let tail: String = err.lines().rev().take(5).collect::<Vec<_>>().join(" | ");
                rep.notes.push(format!("miri slice not run: {}", tail));
                return json!({"status": "inconclusive: miri could not be started", "detail": tail});
            }
        }
        Err(e) => {
            rep.notes.push(format!("miri slice not run: {}", e));
            return json!({"status": format!("inconclusive: {}", e)});
        }
    }
    let mut kids = Vec::new();
    for p in 0..procs {
        if let Ok(c) = miri_cmd(mode, seed.wrapping_mul(1000).wrapping_add(p), count, p).spawn() {
            kids.push((p, c));
        }
    }
    let mut clean = 0u64;
    let mut cases = 0u64;
    let mut problems = 0u64;
    let mut inconclusive = 0u64;
    let deadline = Duration::from_secs(3600);
    for (p, mut c) in kids {
        // generous wall-clock watchdog: firing is inconclusive
        let out = loop {
            match c.try_wait() {
                Ok(Some(_)) => break c.wait_with_output().ok(),
                Ok(None) => {
                    if started.elapsed() > deadline {
                        let _ = c.kill();
                        break None;
                    }
                    std::thread::sleep(Duration::from_millis(300));
                }
                Err(_) => break None,
            }
        };
        let o = match out {
            Some(o) => o,
            None => {
                inconclusive += 1;
                continue;
            }
        };
        let stderr = String::from_utf8_lossy(&o.stderr).to_string();
        let stdout = String::from_utf8_lossy(&o.stdout).to_string();
        let ub = stderr.contains("Undefined Behavior") || stderr.contains("Data race detected") || stderr.contains("memory leaked") || stderr.contains("unsupported operation");
        if ub {
            problems += 1;
            let excerpt: String = stderr.lines().filter(|l| !l.trim().is_empty()).take(40).collect::<Vec<_>>().join("\n");
            let kind = if stderr.contains("Data race detected") {
                "data-race"
            } else if stderr.contains("memory leaked") {
                "leak"
            } else if stderr.contains("unsupported operation") {
                "unsupported"
            } else {
                "undefined-behaviour"
            };
            if kind == "unsupported" {
                inconclusive += 1;
                rep.notes.push(format!("miri: unsupported operation in slice {} proc {}", mode, p));
            } else {
                rep.violation(
                    &format!("miri:{}", kind),
                    format!("Miri reported a problem while running `mirirun {} {} {}`:\n{}", mode, seed.wrapping_mul(1000).wrapping_add(p), count, excerpt),
                    json!({"kind": "miri", "mode": mode, "seed": seed.wrapping_mul(1000).wrapping_add(p), "count": count, "miri_seed": p}),
                );
            }
        } else if o.status.code() == Some(5) {
            problems += 1;
            rep.violation(
                &format!("miri-workload:{}", mode),
                format!("the workload's own check failed under the interpreter: {}", stdout.trim()),
                json!({"kind": "miri", "mode": mode, "seed": seed.wrapping_mul(1000).wrapping_add(p), "count": count, "miri_seed": p}),
            );
        } else if o.status.success() && stdout.contains("MIRIRUN") {
            clean += 1;
            cases += count;
        } else {
            inconclusive += 1;
            rep.notes.push(format!("miri proc {} ended with {:?}: {}", p, o.status, stderr.lines().rev().take(3).collect::<Vec<_>>().join(" | ")));
        }
    }
    let _ = property;
    rep.add("miri_cases_interpreted", cases);
    json!({
        "status": if problems > 0 { "problems reported" } else if inconclusive > 0 { "partly inconclusive" } else { "clean" },
        "mode": mode,
        "processes_clean": clean,
        "processes_with_reports": problems,
        "processes_inconclusive": inconclusive,
        "cases_interpreted": cases,
        "flags": "-Zmiri-seed=<proc> -Zmiri-preemption-rate=0.05 (data-race and leak checking on)",
        "wall_s": started.elapsed().as_secs(),
    })
}
