#![allow(dead_code)]
mod api;
mod bytes;
mod cli;
mod extract;
mod fault;
mod gen;
mod hist;
mod miri;
mod model;
mod prog;
mod real;
mod rel;
mod report;

use std::time::Instant;

use serde_json::{json, Value};

use hist::{HistoryCase, Mix, Oracle};
use report::{Finding, Report, RunMeta};

const SHARDS: usize = 16;

#[derive(Clone, Debug)]
pub struct Args {
    pub property: String,
    pub tier: String,
    pub seed: u64,
    pub replay: Option<String>,
}

fn parse_args() -> Args {
    let mut a = Args {
        property: String::new(),
        tier: std::env::var("VERIF_TIER").unwrap_or_else(|_| "quick".into()),
        seed: std::env::var("VERIF_SEED").ok().and_then(|s| s.parse().ok()).unwrap_or(1),
        replay: None,
    };
    let argv: Vec<String> = std::env::args().skip(1).collect();
    let mut i = 0;
    while i < argv.len() {
        match argv[i].as_str() {
            "--tier" => {
                i += 1;
                a.tier = argv[i].clone();
            }
            "--seed" => {
                i += 1;
                a.seed = argv[i].parse().expect("seed");
            }
            "--replay" => {
                i += 1;
                a.replay = Some(argv[i].clone());
            }
            p => a.property = p.to_string(),
        }
        i += 1;
    }
    if a.tier != "quick" && a.tier != "thorough" {
        a.tier = "quick".into();
    }
    a
}

fn hist_oracle(property: &str) -> Option<(Oracle, Mix)> {
    match property {
        "C01" => Some((hist::check_c01 as Oracle, Mix::Schema)),
        "C03" => Some((hist::check_c03 as Oracle, Mix::Schema)),
        "C04" => Some((hist::check_c04 as Oracle, Mix::Names)),
        "C09" => Some((hist::check_c09 as Oracle, Mix::Schema)),
        "C14" => Some((hist::check_c14 as Oracle, Mix::Names)),
        _ => None,
    }
}

/// replay one stored case through the monitor of `property`
fn replay_case(property: &str, case: &Value, rep: &mut Report) -> Result<(), String> {
    let kind = case.get("kind").and_then(|k| k.as_str()).unwrap_or("");
    match kind {
        "history" => {
            let hc = HistoryCase::from_json(case).ok_or("cannot decode history case")?;
            if ["C05", "C06", "C10", "C11"].contains(&property) {
                rel::replay(property, case, rep)
            } else if let Some((oracle, _)) = hist_oracle(property) {
                hist::run_case(&hc, oracle, rep);
                Ok(())
            } else {
                Err(format!("property {} has no history monitor", property))
            }
        }
        "merge" | "merge-wide" | "ops" => api::replay(property, case, rep),
        "bytes" => bytes::replay(property, case, rep),
        "cli" => cli::replay(case, rep),
        other => Err(format!("unknown case kind {:?}", other)),
    }
}

fn replay_file(property: &str, path: &str, rep: &mut Report) -> Result<(), String> {
    let p = if std::path::Path::new(path).is_absolute() {
        path.to_string()
    } else {
        format!("{}/{}", report::VERIF, path)
    };
    let text = std::fs::read_to_string(&p).map_err(|e| format!("{}: {}", p, e))?;
    let v: Value = serde_json::from_str(&text).map_err(|e| format!("{}: {}", p, e))?;
    let case = v.get("case").ok_or("no case in file")?;
    replay_case(property, case, rep)
}

fn run_hist(args: &Args, oracle: Oracle, mix: Mix) -> (Report, String, bool) {
    let thorough = args.tier == "thorough";
    let n_random: u64 = match (args.property.as_str(), thorough) {
        (_, false) => 160_000,
        (_, true) => 4_000_000,
    };
    // bounded exhaustive part
    let docs_a = hist::tiny_docs(if thorough { 4 } else { 3 }, true, false);
    let docs_t = hist::tiny_docs(2, true, true);
    let na = docs_a.len();
    let nt = docs_t.len();
    let label = args.property.clone();
    let seed = args.seed;
    let thresholds = hist::threshold_cases(true);
    let magnitudes = hist::magnitude_cases(seed, thorough);
    let total = report::sharded(SHARDS, |shard| {
        let mut rep = Report::new();
        // singles and ordered pairs of the attribute family
        let mut idx = 0usize;
        for i in 0..na {
            idx += 1;
            if idx % SHARDS == shard {
                let c = HistoryCase::plain("exhaustive:single", vec![docs_a[i].clone()]);
                hist::run_case(&c, oracle, &mut rep);
                rep.count("exhaustive_cases");
            }
            for j in 0..na {
                idx += 1;
                if idx % SHARDS == shard {
                    let c = HistoryCase::plain("exhaustive:pair", vec![docs_a[i].clone(), docs_a[j].clone()]);
                    hist::run_case(&c, oracle, &mut rep);
                    rep.count("exhaustive_cases");
                }
            }
        }
        for i in 0..nt {
            for j in 0..nt {
                idx += 1;
                if idx % SHARDS == shard {
                    let c = HistoryCase::plain("exhaustive:pair-text", vec![docs_t[i].clone(), docs_t[j].clone()]);
                    hist::run_case(&c, oracle, &mut rep);
                    rep.count("exhaustive_cases");
                }
            }
        }
        // sampled triples from the exhaustive document set
        let mut r = gen::Rng::derive(seed, &format!("{}-triples", label), shard as u64);
        for _ in 0..(n_random / 16 / SHARDS as u64) {
            let c = HistoryCase::plain(
                "tiny:triple",
                vec![docs_a[r.below(na)].clone(), docs_a[r.below(na)].clone(), docs_a[r.below(na)].clone()],
            );
            hist::run_case(&c, oracle, &mut rep);
        }
        // T6: exhaustive occurrence patterns (absent / once / twice per child and occurrence)
        {
            let specs: &[(usize, &[&str])] = if thorough {
                &[(2, &["a", "b", "c"]), (3, &["a", "b", "c"]), (4, &["a", "b", "c"]), (5, &["a", "b"]), (6, &["a"])]
            } else {
                &[(2, &["a", "b", "c"]), (3, &["a", "b", "c"]), (4, &["a", "b"]), (5, &["a"])]
            };
            for (k, names) in specs {
                let total = hist::pattern_count(*k, names.len());
                let mut i = shard as u64;
                while i < total {
                    for c in hist::pattern_cases(i, *k, names) {
                        hist::run_case(&c, oracle, &mut rep);
                        rep.count("exhaustive_occurrence_patterns");
                    }
                    i += SHARDS as u64;
                }
            }
        }
        // threshold families (deterministic): counts, widths, depths and text lengths around powers of two
        for (i, c) in thresholds.iter().enumerate() {
            if i % SHARDS == shard {
                hist::run_case(c, oracle, &mut rep);
                rep.count("threshold_cases");
            }
        }
        // T7: the same dimensions at decimal round numbers and seeded log-uniform magnitudes
        for (i, c) in magnitudes.iter().enumerate() {
            if i % SHARDS == shard {
                hist::run_case(c, oracle, &mut rep);
                rep.count("magnitude_cases");
            }
        }
        // random histories
        let per = n_random / SHARDS as u64;
        for k in 0..per {
            let index = shard as u64 * per + k;
            let c = hist::random_case(seed, &label, index, mix);
            hist::run_case(&c, oracle, &mut rep);
            // reader faults: every 25th random history is supplied again through a BufRead that reports
            // an io::Error at seeded byte offsets of one of its steps (fault.rs: Err, or Ok identical
            // to the fault-free run; a fault that never clears before the root ends must be Err)
            if k % 25 == 7 {
                let texts = c.texts();
                if texts.iter().map(|t| t.len()).sum::<usize>() <= 6000 {
                    let mut fr = gen::Rng::derive(seed, &format!("{}-faults", label), index);
                    fault::sweep(&texts, &mut fr, 12, &mut rep, &c.origin);
                }
            }
        }
        rep
    });
    let rule = format!(
        "histories parse(D1),extend(D2..Dk) through the real parser: (1) exhaustive — every document over names {{a,b}} under root r with <= {} elements below the root, depth <= 2, attribute k on or off ({} documents; all singles and all {} ordered pairs) and every ordered pair of the {} documents with <= 2 elements and text on/off; (2) sampled triples of those; (3) {} seeded random histories (profiles tiny/general/many-docs/adversarial names/wide/deep/long-list, 1-16 documents, random surface syntax and reader kinds); (4) exhaustive occurrence patterns: every assignment of absent/once/twice to each child over k occurrences of one parent (k=2,3 over three children, k=4 over two, k=5 over one; thorough: k=4 over three, k=5 over two, k=6 over one), each supplied inside one document, one occurrence per document, and under two occurrences of a grandparent; (5) deterministic threshold families: N occurrences of a parent (254..513, 65535..65537), N same-named children in one occurrence (255..1024, 65536, 131072), M distinct child or attribute names (63..300) with late repeats / late absences, chains of depth 7..300 (same name, distinct names, alternating, two branches, deep part arriving with the third document), text/CDATA nodes with a multi-byte character straddling offsets 64..4096; (6) magnitude families (T7): the same dimensions (occurrences, siblings, distinct child/attribute names, depth <= 199, name length, number of documents) at decimal round numbers (10..10000) and at seeded log-uniform random magnitudes, with a seeded position for the one occurrence/document that lacks or doubles the child; (7) every fifth random history renders the tree (both orders, two option sets, every other time on another thread) after each step before extending it further; (8) reader faults: every 25th random history is supplied again through a BufRead that reports an io::Error (WouldBlock, TimedOut, Other, UnexpectedEof, BrokenPipe, PermissionDenied, InvalidData once or for good; Interrupted once) at 12 byte offsets of one step (first, last, end, seeded): the call must return Err or an Ok tree rendering byte-identically to the fault-free run, and a fault that never clears before the root element ends must be Err. Non-trivial: the reference schema has more than one position or an attribute; distinct: hash of (canonical reference schema, rendered bytes).",
        if thorough { 4 } else { 3 },
        na,
        na * na,
        nt,
        n_random
    );
    (total, rule, false)
}

/// A `log` sink that formats every record (so that the arguments of the library's log macros are really
/// evaluated) and throws the text away. Logging is ON at Trace level in every monitor process unless
/// XSG_LOG=off: a log line must never change what the library does.
struct Sink;
impl log::Log for Sink {
    fn enabled(&self, _: &log::Metadata) -> bool {
        true
    }
    fn log(&self, record: &log::Record) {
        use std::fmt::Write;
        let mut s = String::new();
        let _ = write!(s, "{}", record.args());
        std::hint::black_box(s.len());
    }
    fn flush(&self) {}
}
static SINK: Sink = Sink;

fn main() {
    if std::env::var("XSG_LOG").map(|v| v != "off").unwrap_or(true) {
        let _ = log::set_logger(&SINK);
        log::set_max_level(log::LevelFilter::Trace);
    }
    hist::install_panic_hook();
    if std::env::args().nth(1).as_deref() == Some("c07-shard") {
        let a: Vec<String> = std::env::args().skip(2).collect();
        let code = bytes::c07_shard_main(a[0].parse().unwrap(), a[1].parse().unwrap(), a[2].parse().unwrap(), &a[3], a[2] == "1");
        std::process::exit(code);
    }
    if std::env::args().nth(1).as_deref() == Some("c05-child") {
        let a: Vec<String> = std::env::args().skip(2).collect();
        std::process::exit(rel::c05_child_main(a[0].parse().unwrap(), a[1].parse().unwrap(), a[2].parse().unwrap(), a.get(3).and_then(|x| x.parse().ok()).unwrap_or(0)));
    }
    let shard_run = std::env::args().nth(1).as_deref() == Some("shard-run");
    let args = if shard_run {
        // xsgmon shard-run <property> <tier> <seed> <call-no> <shard> <journal>: one shard of one
        // `sharded` call of the property's monitor, in its own process (see report.rs)
        let a: Vec<String> = std::env::args().skip(2).collect();
        report::enter_child_mode(a[3].parse().unwrap(), a[4].parse().unwrap(), &a[5]);
        report::apply_child_limits();
        Args {
            property: a[0].clone(),
            tier: a[1].clone(),
            seed: a[2].parse().unwrap(),
            replay: None,
        }
    } else {
        parse_args()
    };
    if std::env::var("XSG_CHILD_LIMITS").is_ok() && !shard_run {
        report::apply_child_limits();
    }
    let started = Instant::now();
    if args.property.is_empty() && std::env::args().nth(1).as_deref() != Some("mkcase") {
        eprintln!("usage: xsgmon <Cxx> [--tier quick|thorough] [--seed N] [--replay file]");
        std::process::exit(2);
    }
    let property = args.property.clone();

    if std::env::args().nth(1).as_deref() == Some("mkcase") {
        // xsgmon mkcase <out.json> <xml>... : wrap literal documents as a history case
        let argv: Vec<String> = std::env::args().skip(2).collect();
        let out = &argv[0];
        let texts: Vec<String> = argv[1..].to_vec();
        let case = HistoryCase::from_xml("hand-written", &texts).expect("well-formed XML");
        let body = json!({"case": case.to_json()});
        std::fs::write(out, serde_json::to_string_pretty(&body).unwrap()).expect("write");
        return;
    }

    if let (Some(path), true) = (&args.replay, property == "C02" || property == "C13") {
        let preset = if property == "C02" { prog::Preset::QuickXml } else { prog::Preset::SerdeXmlRs };
        let p = if std::path::Path::new(path).is_absolute() { path.clone() } else { format!("{}/{}", report::VERIF, path) };
        let hc = std::fs::read_to_string(&p)
            .ok()
            .and_then(|t| serde_json::from_str::<Value>(&t).ok())
            .and_then(|v| v.get("case").and_then(HistoryCase::from_json));
        match hc {
            Some(hc) => {
                let (rep, _, _, _) = prog::run(preset, false, args.seed, &[], Some(hc));
                if rep.violations.is_empty() && rep.inconclusive == 0 {
                    println!("replay: no violation on this case");
                    std::process::exit(0);
                }
                for v in &rep.violations {
                    println!("VIOLATION property={} replay={}", property, path);
                    println!("  signature: {}", v.sig);
                    for l in v.detail.lines() {
                        println!("  {}", l);
                    }
                }
                if rep.violations.is_empty() {
                    println!("INCONCLUSIVE: {:?}", rep.inconclusive_reasons);
                    std::process::exit(2);
                }
                std::process::exit(1);
            }
            None => {
                println!("INCONCLUSIVE: cannot read the case in {}", path);
                std::process::exit(2);
            }
        }
    }
    if let Some(path) = &args.replay {
        let mut rep = Report::new();
        match replay_file(&property, path, &mut rep) {
            Ok(()) => {
                if rep.violations.is_empty() {
                    println!("replay: no violation on this case");
                    std::process::exit(0);
                }
                for v in &rep.violations {
                    println!("VIOLATION property={} replay={}", property, path);
                    println!("  signature: {}", v.sig);
                    for l in v.detail.lines() {
                        println!("  {}", l);
                    }
                }
                std::process::exit(1);
            }
            Err(e) => {
                println!("INCONCLUSIVE: {}", e);
                std::process::exit(2);
            }
        }
    }

    // generous wall-clock watchdog: a wedged run is inconclusive, never a violation (C07 has its own
    // per-call monitor that pins a non-returning call to its case)
    {
        let limit = if args.tier == "thorough" { 8 * 3600 } else { 3600 };
        let prop = property.clone();
        std::thread::spawn(move || {
            std::thread::sleep(std::time::Duration::from_secs(limit));
            println!("INCONCLUSIVE: {} did not finish within the {} s wall-clock watchdog", prop, limit);
            std::process::exit(2);
        });
    }
    let _ = report::RUN_ARGS.set((property.clone(), args.tier.clone(), args.seed));
    // process isolation of the shards (journalled child processes) for every monitor that calls into
    // the library in-process on generated cases; XSG_INPROC=1 falls back to threads
    if std::env::var("XSG_INPROC").is_err() && ["C01", "C03", "C04", "C05", "C06", "C08", "C09", "C10", "C11", "C14", "C16"].contains(&property.as_str()) {
        report::set_isolation(true);
    }
    let findings: Vec<Finding> = if shard_run { Vec::new() } else { report::load_findings(&property) };
    let mut witness_sigs: Vec<(Finding, Vec<String>)> = Vec::new();
    let mut witness_report = Report::new();
    let is_prog = property == "C02" || property == "C13";
    for f in findings.iter().filter(|_| !is_prog) {
        let mut rep = Report::new();
        match replay_file(&property, &f.witness, &mut rep) {
            Ok(()) => {
                let sigs: Vec<String> = rep.violation_counts.keys().cloned().collect();
                witness_sigs.push((f.clone(), sigs));
                rep.evaluations = 0;
                rep.nontrivial.clear();
                witness_report.merge(rep);
            }
            Err(e) => {
                println!("INCONCLUSIVE: witness {} of a listed finding cannot be replayed: {}", f.witness, e);
                std::process::exit(2);
            }
        }
    }

    let (mut report, rule, exhaustive, assumptions, floor, extra): (Report, String, bool, Vec<String>, u64, Value) =
        if let Some((oracle, mix)) = hist_oracle(&property) {
            let (r, rule, ex) = run_hist(&args, oracle, mix);
            (
                r,
                rule,
                ex,
                vec![
                    "the document AST is ground truth; the serializer in gen.rs writes well-formed XML for it".into(),
                    "quick-xml 0.37.5 default reader configuration".into(),
                    "rendered text is read back with the quick-xml preset (@, $text), whose bindings identify attributes, text and children unambiguously".into(),
                ],
                1000,
                json!({}),
            )
        } else if property == "C07" {
            let (r, rule, extra) = bytes::run_c07(args.tier == "thorough", args.seed, SHARDS);
            (
                r,
                rule,
                false,
                vec![
                    "optimized harness build with debug assertions and overflow checks on; 2 MiB stack for nesting ladders (std's default for spawned threads); nesting deeper than 200 and inputs above 64 KiB are not claimed".into(),
                    "a clean sanitizer run is not memory safety; the crate itself has no unsafe code, the tools watch quick-xml/memchr/std as driven by this crate".into(),
                ],
                1000,
                extra,
            )
        } else if property == "C08" {
            let (r, rule) = bytes::run_c08(args.tier == "thorough", args.seed, SHARDS);
            (
                r,
                rule,
                false,
                vec![
                    "the expected verdict comes from a second quick-xml reader of the same kind over the same bytes: the oracle checks this crate's handling of the event stream, not quick-xml's own notion of well-formedness".into(),
                    "error variants are constrained only for syntax errors (must carry the reader's error and one of its two positions)".into(),
                ],
                1000,
                json!({}),
            )
        } else if ["C05", "C06", "C10", "C11"].contains(&property.as_str()) {
            let th = args.tier == "thorough";
            let (r, rule) = match property.as_str() {
                "C05" => rel::run_c05(th, args.seed, SHARDS),
                "C06" => rel::run_c06(th, args.seed, SHARDS),
                "C10" => rel::run_c10(th, args.seed, SHARDS),
                _ => rel::run_c11(th, args.seed, SHARDS),
            };
            let assumptions: Vec<String> = match property.as_str() {
                "C05" => vec!["std's RandomState gives every HashMap instance a different key (per-thread counter), so in-process repetitions range over iteration orders; the canary counters show whether they did".into()],
                "C06" => vec!["identifiers, struct names and field order are not compared between orders of supply (which of two colliding names gets a suffix legitimately follows supply order)".into()],
                "C10" => vec!["private-use code points never occur in identifiers, so the sentinel rendering shows every attribute binding".into()],
                _ => vec!["whitespace-only text is only rewritten to other whitespace-only text (whether it counts as character data is C03's business)".into()],
            };
            (r, rule, false, assumptions, if property == "C05" { 200 } else { 1000 }, json!({}))
        } else if is_prog {
            let preset = if property == "C02" { prog::Preset::QuickXml } else { prog::Preset::SerdeXmlRs };
            let (r, rule, extra, ws) = prog::run(preset, args.tier == "thorough", args.seed, &findings, None);
            witness_sigs = ws;
            (
                r,
                rule,
                false,
                vec![
                    "rustc (default toolchain), serde 1.0.229, quick-xml 0.37.5, serde-xml-rs 0.6.0 as pinned by the lock file are the oracles".into(),
                    "C02: the generated crates enable quick-xml's overlapped-lists feature, because the property puts no adjacency condition on repeated children".into(),
                    "serde's derive macros are brought into scope with #[macro_use] extern crate serde (macro namespace only)".into(),
                ],
                if args.tier == "thorough" { 1000 } else { 60 },
                extra,
            )
        } else if property == "C12" {
            let (r, rule) = cli::run_c12(args.tier == "thorough", args.seed, SHARDS);
            (
                r,
                rule,
                false,
                vec![
                    "the env_logger feature is not built and RUST_LOG is unset; a closed stdout is outside the statement".into(),
                    "permission-based faults are not used (the sandbox runs as root); uncreatable outputs are a missing directory, a directory, and a path under a regular file".into(),
                ],
                300,
                json!({}),
            )
        } else if property == "C15" {
            let (r, rule) = api::run_c15(args.tier == "thorough", args.seed, SHARDS);
            (
                r,
                rule,
                true,
                vec!["the 15-line reference merge in api.rs is the reading of the statement".into()],
                1000,
                json!({}),
            )
        } else if property == "C16" {
            let (r, rule) = api::run_c16(args.tier == "thorough", args.seed, SHARDS);
            (
                r,
                rule,
                true,
                vec![
                    "attributes of a hand-built tree are only observable through rendering; fields are compared as sets (order is not claimed for hand-built trees)".into(),
                    "merge_attr lists are duplicate-free, as C15 requires".into(),
                ],
                1000,
                json!({}),
            )
        } else {
            println!("INCONCLUSIVE: no monitor for property {}", property);
            std::process::exit(2);
        };
    if shard_run {
        // hand the shard's report to the parent and stop
        let hashes = format!("{}.hashes", std::env::args().nth(7).unwrap_or_default());
        println!("REPORT {}", report.to_child_json(&hashes));
        std::process::exit(0);
    }
    let mut extra = extra;
    if args.tier == "thorough" {
        let plan: Option<(&str, u64, u64)> = match property.as_str() {
            "C07" => Some(("bytes", 16, 120)),
            "C05" => Some(("threads", 16, 40)),
            "C15" => Some(("merge", 16, 2000)),
            "C16" => Some(("ops", 16, 60)),
            _ => None,
        };
        if let Some((mode, procs, count)) = plan {
            let v = miri::slice(&property, mode, args.seed, procs, count, &mut report);
            if let Some(o) = extra.as_object_mut() {
                o.insert("miri".into(), v);
            }
        }
    }
    // violations seen on witnesses count too (listed ones are absorbed, unlisted ones raise)
    report.merge(witness_report);

    let meta = RunMeta {
        property: property.clone(),
        tier: args.tier.clone(),
        seed: args.seed,
        rule,
        assumptions,
        exhaustive,
        floor_nontrivial: floor,
        extra,
        started,
    };
    let code = report::finish(meta, report, &findings, &witness_sigs);
    std::process::exit(code);
}
