//! History pipeline shared by the schema monitors: generate a history, run it through the real
//! parser, render, extract, and hand everything to the per-property oracles.

use std::cell::Cell;
use std::panic::{catch_unwind, AssertUnwindSafe};

use convert_string::ConvertString;
use serde::{Deserialize, Serialize};
use serde_json::{json, Value};
use xml_schema_generator::{Element, Necessity};

use crate::extract::{self, Complaint, ENode, RStruct};
use crate::gen::{self, Doc, Elem, Profile, ReaderKind, Rng, Surface};
use crate::model::{self, attr_bound, child_bound, SNode};
use crate::real::{self, Cfg};
use crate::report::Report;

thread_local! {
    pub static QUIET_PANIC: Cell<bool> = const { Cell::new(false) };
}

pub fn install_panic_hook() {
    let default = std::panic::take_hook();
    std::panic::set_hook(Box::new(move |info| {
        if !QUIET_PANIC.with(|q| q.get()) {
            default(info);
        }
    }));
}

/// run `f`, turning a panic of the code under observation into Err(message)
pub fn guarded<T>(f: impl FnOnce() -> T) -> Result<T, String> {
    QUIET_PANIC.with(|q| q.set(true));
    let r = catch_unwind(AssertUnwindSafe(f));
    QUIET_PANIC.with(|q| q.set(false));
    r.map_err(|p| {
        p.downcast_ref::<String>()
            .cloned()
            .or_else(|| p.downcast_ref::<&str>().map(|s| s.to_string()))
            .unwrap_or_else(|| "panic with non-string payload".into())
    })
}

#[derive(Clone, Debug, Serialize, Deserialize)]
pub struct HistoryCase {
    pub origin: String,
    pub docs: Vec<Doc>,
    pub surfaces: Vec<Surface>,
    pub kinds: Vec<ReaderKind>,
    /// verbatim document texts (hand-written witnesses); when present they are fed to the parser
    /// instead of the serialization of `docs`, which stays the ground truth
    #[serde(default)]
    pub raw_texts: Option<Vec<String>>,
    /// run every step of the history on a freshly spawned thread (the tree is moved between them)
    #[serde(default)]
    pub across_threads: bool,
    /// feed a damaged copy of the first document through into_struct (result ignored) on the same
    /// thread right before the history: state left behind by a failed call would show
    #[serde(default)]
    pub failed_parse_first: bool,
    /// render the tree (both sort orders, result discarded) after every step before extending it
    /// further: anything a rendering leaves behind in the tree (memoised names, cached layouts)
    /// would show in the final output
    #[serde(default)]
    pub render_between: bool,
}

impl HistoryCase {
    pub fn from_xml(origin: &str, texts: &[String]) -> Result<HistoryCase, String> {
        let docs = texts.iter().map(|t| gen::ast_from_xml(t)).collect::<Result<Vec<_>, _>>()?;
        let mut c = HistoryCase::plain(origin, docs);
        c.raw_texts = Some(texts.to_vec());
        Ok(c)
    }
    pub fn plain(origin: &str, docs: Vec<Doc>) -> HistoryCase {
        let n = docs.len();
        HistoryCase {
            origin: origin.to_string(),
            docs,
            surfaces: vec![Surface::plain(); n],
            kinds: vec![ReaderKind::Str],
            raw_texts: None,
            across_threads: false,
            failed_parse_first: false,
            render_between: false,
        }
    }
    pub fn texts(&self) -> Vec<String> {
        if let Some(t) = &self.raw_texts {
            return t.clone();
        }
        self.docs
            .iter()
            .zip(self.surfaces.iter())
            .map(|(d, s)| gen::write_doc(d, s))
            .collect()
    }
    pub fn to_json(&self) -> Value {
        json!({"kind": "history", "origin": self.origin, "texts": self.texts(), "case": serde_json::to_value(self).unwrap()})
    }
    pub fn from_json(v: &Value) -> Option<HistoryCase> {
        serde_json::from_value(v.get("case")?.clone()).ok()
    }
}

/// everything observed for one history
pub struct Obs {
    pub texts: Vec<String>,
    pub tree: Element<String>,
    pub model: SNode,
    pub out_unsorted: String,
    pub out_sorted: String,
}

pub enum ObsError {
    Parse(usize, String),
    Panic(String),
}

pub fn observe(case: &HistoryCase) -> Result<Obs, ObsError> {
    let texts = case.texts();
    if case.failed_parse_first {
        // a damaged copy of the first document: the end tag of the root is replaced, so the failure comes
        // after children were recorded
        let mut bad = texts[0].clone();
        if let Some(p) = bad.rfind("</") {
            bad.truncate(p);
            bad.push_str("</mismatch>");
        } else {
            bad.push_str("<unclosed attr=>");
        }
        let _ = guarded(|| real::parse_bytes(bad.as_bytes(), ReaderKind::Slice, Cfg::default()).is_ok());
    }
    let run = || {
        if case.render_between {
            real::run_history_rendering_between(&texts, &case.kinds, Cfg::default(), case.across_threads)
        } else if case.across_threads {
            real::run_history_across_threads(&texts, &case.kinds, Cfg::default())
        } else {
            real::run_history(&texts, &case.kinds, Cfg::default())
        }
    };
    let tree = match guarded(run) {
        Ok(Ok(t)) => t,
        Ok(Err((i, e))) => return Err(ObsError::Parse(i, e)),
        Err(p) => return Err(ObsError::Panic(format!("parse/extend panicked: {}", p))),
    };
    let model = model::infer(&case.docs);
    let out_unsorted = guarded(|| tree.to_serde_struct(&real::opts_qx(false))).map_err(|p| ObsError::Panic(format!("render panicked: {}", p)))?;
    let out_sorted = guarded(|| tree.to_serde_struct(&real::opts_qx(true))).map_err(|p| ObsError::Panic(format!("render(sorted) panicked: {}", p)))?;
    Ok(Obs {
        texts,
        tree,
        model,
        out_unsorted,
        out_sorted,
    })
}

pub fn extract_tree(out: &str) -> Result<(Vec<RStruct>, ENode), String> {
    let structs = extract::parse_rendered(out)?;
    // a struct or a field type without a name is no struct definition for any position (the line grammar
    // itself lets an empty word through so that C04 can name the defect)
    if structs.iter().any(|s| s.name.is_empty() || s.fields.iter().any(|f| f.base.is_empty() || f.ident.is_empty())) {
        return Err("line grammar, a struct, field or field type has an empty name".into());
    }
    let tree = extract::build_tree(&structs, "@", "$text")?;
    Ok((structs, tree))
}

// ---------------------------------------------------------------------------------------
// Workloads
// ---------------------------------------------------------------------------------------

#[derive(Clone, Copy, Debug, PartialEq)]
pub enum Mix {
    /// tiny + general + some adversarial (C01/C03/C06/C09/C11)
    Schema,
    /// adversarial names at full weight (C04/C14)
    Names,
}

pub fn random_case(seed: u64, label: &str, index: u64, mix: Mix) -> HistoryCase {
    let mut r = Rng::derive(seed, label, index);
    let (profile, origin) = match mix {
        Mix::Schema => match r.below(40) {
            0 => (Profile::wide(), "wide"),
            1 => (Profile::deep(), "deep"),
            2 => (if r.chance(1, 8) { Profile::long_list() } else { Profile::many_docs() }, "long-list/many-docs"),
            3 => (Profile::many_docs(), "many-docs-16"),
            _ => match r.below(10) {
            0..=4 => (Profile::tiny(), "tiny"),
            5..=7 => (Profile::general(), "general"),
            8 => (
                Profile {
                    n_docs: (3, 6),
                    max_depth: 3,
                    max_children: 6,
                    ..Profile::tiny()
                },
                "many-docs",
            ),
            _ => (Profile::adversarial(), "adversarial"),
            },
        },
        Mix::Names => match r.below(10) {
            0 => (
                Profile {
                    pool: gen::Pool::SuffixClash,
                    max_depth: 3,
                    max_children: 7,
                    n_elem_names: (3, 7),
                    n_attr_names: (3, 8),
                    n_docs: (1, 4),
                    ..Profile::general()
                },
                "suffix-clash",
            ),
            1 if r.chance(1, 2) => (
                Profile {
                    pool: gen::Pool::ReservedConcat,
                    max_depth: 4,
                    max_children: 5,
                    n_elem_names: (3, 6),
                    n_attr_names: (1, 2),
                    n_docs: (1, 3),
                    ..Profile::general()
                },
                "reserved-concat",
            ),
            1..=6 => (Profile::adversarial(), "adversarial"),
            7 => (
                if r.chance(1, 4) {
                    Profile { pool: gen::Pool::Adversarial, ..Profile::deep() }
                } else if r.chance(1, 3) {
                    Profile::wide()
                } else {
                    Profile {
                        max_depth: 6,
                        n_elem_names: (1, 3),
                        ..Profile::adversarial()
                    }
                },
                "adversarial-deep/wide",
            ),
            _ => (Profile::general(), "general"),
        },
    };
    let docs = gen::random_history(&mut r, &profile, &index.to_string());
    let surfaces = docs
        .iter()
        .map(|_| if r.chance(1, 3) { Surface::plain() } else { Surface::seeded_with_lead(r.next()) })
        .collect();
    let kinds = (0..docs.len()).map(|_| ReaderKind::random(&mut r)).collect();
    HistoryCase {
        origin: format!("random:{}:{}:{}:{}", origin, seed, label, index),
        docs,
        surfaces,
        kinds,
        raw_texts: None,
        across_threads: index % 9 == 4,
        failed_parse_first: index % 7 == 3,
        render_between: index % 5 == 1,
    }
}

/// bounded exhaustive histories: all documents over names {a,b} under root r with at most
/// `budget` elements below the root (optionally attribute k / text), all single documents and all
/// ordered pairs, plus triples sampled by the caller
pub fn tiny_docs(budget: usize, attrs: bool, text: bool) -> Vec<Doc> {
    gen::enumerate_elems("r", &["a", "b"], budget, 2, attrs, text)
        .into_iter()
        .map(Doc::plain)
        .collect()
}

// ---------------------------------------------------------------------------------------
// Mapping extracted tree <-> model
// ---------------------------------------------------------------------------------------

/// pairs each extracted child with the model child it stands for (by bound name; among equal bound
/// names by order). Returns None when the sets do not correspond.
pub fn pair_children<'a>(e: &'a ENode, m: &'a SNode) -> Option<Vec<(&'a extract::EChild, &'a model::SChild)>> {
    if e.children.len() != m.children.len() {
        return None;
    }
    let mut used = vec![false; m.children.len()];
    let mut out = Vec::new();
    for ec in &e.children {
        let mut found = None;
        for (i, mc) in m.children.iter().enumerate() {
            if !used[i] && child_bound(&mc.name) == ec.bound {
                found = Some(i);
                break;
            }
        }
        let i = found?;
        used[i] = true;
        out.push((ec, &m.children[i]));
    }
    Some(out)
}

pub fn pair_attrs<'a>(e: &'a ENode, m: &'a SNode) -> Option<Vec<(&'a extract::EAttr, &'a model::SAttr)>> {
    if e.attrs.len() != m.attrs.len() {
        return None;
    }
    let mut used = vec![false; m.attrs.len()];
    let mut out = Vec::new();
    for ea in &e.attrs {
        let mut found = None;
        for (i, ma) in m.attrs.iter().enumerate() {
            if !used[i] && attr_bound(&ma.name) == ea.bound {
                found = Some(i);
                break;
            }
        }
        let i = found?;
        used[i] = true;
        out.push((ea, &m.attrs[i]));
    }
    Some(out)
}

/// (struct name, raw path root..own) for every struct position; None if the trees do not correspond
pub fn struct_paths(e: &ENode, m: &SNode) -> Option<Vec<(String, Vec<String>)>> {
    fn go(e: &ENode, m: &SNode, path: &mut Vec<String>, out: &mut Vec<(String, Vec<String>)>) -> bool {
        path.push(m.name.clone());
        out.push((e.struct_name.clone(), path.clone()));
        let pairs = match pair_children(e, m) {
            Some(p) => p,
            None => return false,
        };
        for (ec, mc) in pairs {
            if let Some(sub) = &ec.node {
                if !go(sub, &mc.node, path, out) {
                    return false;
                }
            }
        }
        path.pop();
        true
    }
    let mut out = Vec::new();
    let mut path = Vec::new();
    if go(e, m, &mut path, &mut out) {
        Some(out)
    } else {
        None
    }
}

pub fn pascal(s: &str) -> String {
    s.to_string().to_pascal_case()
}

// ---------------------------------------------------------------------------------------
// C03: exactness against the reference inference
// ---------------------------------------------------------------------------------------

/// The rendered text could not be read back as a tree of struct definitions. When the well-formedness
/// checker objects to it for a reason other than the two listed duplicate-name findings, there is no
/// struct for some position at all, so the property that needs that struct is violated (the case used
/// to be counted inconclusive, leaving the report to C04 alone). Otherwise: inconclusive, as before.
fn unreadable_rendering(case: &HistoryCase, obs: &Obs, err: &str, sig: &str, rep: &mut Report) {
    let serious: Vec<Complaint> = c04_complaints(&obs.out_unsorted, &obs.model)
        .into_iter()
        .filter(|c| !c.sig.starts_with("dup-struct:identical-pascal-trace") && !c.sig.starts_with("dup-struct:concat-ambiguity"))
        .collect();
    if let Some(c) = serious.first() {
        rep.violation(
            sig,
            format!(
                "the rendering cannot be read as struct definitions for every position ({}); well-formedness objection: {} — {}\noutput:\n{}",
                short(err),
                c.sig,
                c.detail,
                obs.out_unsorted
            ),
            case.to_json(),
        );
    } else {
        rep.inconclusive(&format!("extractor: {}", short(err)));
    }
}

pub fn check_c03(case: &HistoryCase, obs: &Obs, rep: &mut Report) {
    if !model::bound_names_unique(&obs.model) {
        rep.skipped_precondition += 1;
        return;
    }
    let (_, etree) = match extract_tree(&obs.out_unsorted) {
        Ok(x) => x,
        Err(e) => {
            unreadable_rendering(case, obs, &e, "inexact:unreadable-rendering", rep);
            return;
        }
    };
    let mut expected = model::canon_of_model(&obs.model);
    expected.string_typed = false; // the root always gets a struct
    let got = extract::canon_of_tree(&etree);
    if let Some(d) = got.diff(&expected, "") {
        let kind = diff_kind(&d);
        rep.violation(
            &format!("inexact:{}", kind),
            format!(
                "rendered schema differs from the reference inference (rendered vs expected)\n{}\nrendered: {}\nexpected: {}\noutput:\n{}",
                d,
                got.describe(),
                expected.describe(),
                obs.out_unsorted
            ),
            case.to_json(),
        );
        return;
    }
    // the same on the returned tree (children names, necessity, standalone, text)
    if let Some(d) = tree_vs_model(&obs.tree, &obs.model, "") {
        rep.violation(
            "inexact:tree-api",
            format!("Element tree differs from the reference inference: {}", d),
            case.to_json(),
        );
        return;
    }
    note_mechanisms(&obs.model, rep);
    // sorted output must carry the same schema
    match extract_tree(&obs.out_sorted) {
        Ok((_, t)) => {
            if let Some(d) = extract::canon_of_tree(&t).diff(&expected, "") {
                rep.violation(
                    "inexact:sorted-output",
                    format!("sorted rendering differs from the reference inference: {}\n{}", d, obs.out_sorted),
                    case.to_json(),
                );
            }
        }
        Err(e) => rep.inconclusive(&format!("extractor(sorted): {}", short(&e))),
    }
}

fn diff_kind(d: &str) -> &'static str {
    if d.contains("string-typed") {
        "string-typing"
    } else if d.contains(": text ") {
        "text-flag"
    } else if d.contains("attributes") {
        "attributes"
    } else {
        "children"
    }
}

pub fn short(e: &str) -> String {
    // normalise extractor messages into a handful of classes (they end up as keys in the evidence)
    if e.contains("not emitted in pre-order") {
        return "extractor: a field refers to a struct that is not emitted in pre-order".into();
    }
    if e.contains("but the next struct in pre-order") {
        return "extractor: a field's type is not the next struct in pre-order".into();
    }
    if e.contains("not reachable from the first struct") {
        return "extractor: structs not reachable from the first struct".into();
    }
    if e.contains("has type other than (Option<)String") {
        return "extractor: attribute field with a non-String type".into();
    }
    if e.contains("two text fields") {
        return "extractor: two text fields in one struct".into();
    }
    if let Some(p) = e.find(": expected ") {
        let rest: String = e[p + 2..].chars().take(28).collect();
        return format!("extractor: line grammar, {}", rest);
    }
    let s: String = e.chars().take(48).collect();
    s.split(|c: char| c.is_ascii_digit()).next().unwrap_or("").to_string()
}

fn tree_vs_model(t: &Element<String>, m: &SNode, path: &str) -> Option<String> {
    if t.name != m.name {
        return Some(format!("{}: name {} vs {}", path, t.name, m.name));
    }
    if t.text.is_some() != m.has_text {
        return Some(format!("{}/{}: text.is_some()={} expected {}", path, m.name, t.text.is_some(), m.has_text));
    }
    let kids = t.children();
    if kids.len() != m.children.len() {
        return Some(format!(
            "{}/{}: {} children vs {} expected",
            path,
            m.name,
            kids.len(),
            m.children.len()
        ));
    }
    for mc in &m.children {
        let k = match t.get_child(&mc.name) {
            Some(k) => k,
            None => return Some(format!("{}/{}: child {} missing", path, m.name, mc.name)),
        };
        let mandatory = matches!(k, Necessity::Mandatory(_));
        if mandatory != mc.mandatory {
            return Some(format!("{}/{}: child {} mandatory={} expected {}", path, m.name, mc.name, mandatory, mc.mandatory));
        }
        if k.inner_t().standalone() == mc.multiple {
            return Some(format!(
                "{}/{}: child {} standalone()={} but multiple={}",
                path,
                m.name,
                mc.name,
                k.inner_t().standalone(),
                mc.multiple
            ));
        }
        if let Some(d) = tree_vs_model(k.inner_t(), &mc.node, &format!("{}/{}", path, m.name)) {
            return Some(d);
        }
    }
    None
}

// ---------------------------------------------------------------------------------------
// C01: admission check of every source document (independent of the reference inference)
// ---------------------------------------------------------------------------------------

fn admit(e: &Elem, n: &ENode, path: &str, rep: &mut Report) -> Option<(String, String)> {
    let here = format!("{}/{}", path, e.name);
    rep.count("occurrences_walked");
    for (k, _) in &e.attrs {
        let b = attr_bound(k);
        if !n.attrs.iter().any(|a| a.bound == b) {
            return Some(("attr-without-field".into(), format!("{}: attribute {} has no field bound to @{} in struct {}", here, k, b, n.struct_name)));
        }
        rep.count("fields_checked");
    }
    for a in &n.attrs {
        if !a.optional && !e.attrs.iter().any(|(k, _)| attr_bound(k) == a.bound) {
            return Some(("required-attr-absent".into(), format!("{}: field {} (@{}) of struct {} is not Option but this occurrence lacks the attribute", here, a.ident, a.bound, n.struct_name)));
        }
    }
    let mut counts: Vec<(&str, usize)> = Vec::new();
    for c in e.child_elems() {
        let b = child_bound(&c.name);
        match counts.iter_mut().find(|(n, _)| *n == b) {
            Some(x) => x.1 += 1,
            None => counts.push((b, 1)),
        }
    }
    for (b, cnt) in &counts {
        let f = match n.children.iter().find(|c| c.bound == *b) {
            Some(f) => f,
            None => return Some(("child-without-field".into(), format!("{}: child element {} has no field bound to it in struct {}", here, b, n.struct_name))),
        };
        rep.count("fields_checked");
        if *cnt > 1 && !f.vec {
            return Some(("single-field-repeated".into(), format!("{}: child {} occurs {} times but field {} of struct {} is not a Vec", here, b, cnt, f.ident, n.struct_name)));
        }
    }
    for f in &n.children {
        if !f.optional && !counts.iter().any(|(b, _)| *b == f.bound) {
            return Some(("required-child-absent".into(), format!("{}: field {} ({}) of struct {} is not Option but this occurrence lacks the child", here, f.ident, f.bound, n.struct_name)));
        }
    }
    if e.has_significant_text() && n.text.is_none() {
        return Some(("text-without-field".into(), format!("{}: character data but struct {} has no text field", here, n.struct_name)));
    }
    if n.text.is_some() && !n.text_type_ok {
        return Some(("text-field-type".into(), format!("{}: text field of struct {} is not Option<String>", here, n.struct_name)));
    }
    for c in e.child_elems() {
        let f = n.children.iter().find(|f| f.bound == child_bound(&c.name)).unwrap();
        match &f.node {
            Some(sub) => {
                if let Some(v) = admit(c, sub, &here, rep) {
                    return Some(v);
                }
            }
            None => {
                rep.count("occurrences_walked");
                if !c.attrs.is_empty() || c.child_elems().next().is_some() {
                    return Some(("string-typed-has-structure".into(), format!("{}/{}: typed String but this occurrence has attributes or children", here, c.name)));
                }
            }
        }
    }
    None
}

fn tree_admits(e: &Elem, t: &Element<String>, path: &str) -> Option<String> {
    if e.has_significant_text() && t.text.is_none() {
        return Some(format!("{}/{}: character data but Element.text is None", path, e.name));
    }
    let mut counts: Vec<(&str, usize)> = Vec::new();
    for c in e.child_elems() {
        match counts.iter_mut().find(|(n, _)| *n == c.name) {
            Some(x) => x.1 += 1,
            None => counts.push((&c.name, 1)),
        }
    }
    for (n, cnt) in counts {
        let k = match t.get_child(&n.to_string()) {
            Some(k) => k,
            None => return Some(format!("{}/{}: child {} not in Element tree", path, e.name, n)),
        };
        if cnt > 1 && k.inner_t().standalone() {
            return Some(format!("{}/{}: child {} repeats but standalone() is true", path, e.name, n));
        }
    }
    for k in t.children() {
        if let Necessity::Mandatory(c) = k {
            if !e.child_elems().any(|x| x.name == c.name) {
                return Some(format!("{}/{}: Mandatory child {} absent from this occurrence", path, e.name, c.name));
            }
        }
    }
    for c in e.child_elems() {
        if let Some(k) = t.get_child(&c.name) {
            if let Some(d) = tree_admits(c, k.inner_t(), &format!("{}/{}", path, e.name)) {
                return Some(d);
            }
        }
    }
    None
}

pub fn check_c01(case: &HistoryCase, obs: &Obs, rep: &mut Report) {
    if !model::bound_names_unique(&obs.model) {
        rep.skipped_precondition += 1;
        return;
    }
    let (_, etree) = match extract_tree(&obs.out_unsorted) {
        Ok(x) => x,
        Err(e) => {
            unreadable_rendering(case, obs, &e, "not-admitted:unreadable-rendering", rep);
            return;
        }
    };
    for (i, d) in case.docs.iter().enumerate() {
        if child_bound(&d.root.name) != child_bound(&obs.model.name) {
            rep.skipped_precondition += 1;
            return;
        }
        if let Some((sig, detail)) = admit(&d.root, &etree, "", rep) {
            rep.violation(
                &format!("not-admitted:{}", sig),
                format!("document {} is not described by the rendered structs: {}\noutput:\n{}", i + 1, detail, obs.out_unsorted),
                case.to_json(),
            );
            return;
        }
        if let Some(detail) = tree_admits(&d.root, &obs.tree, "") {
            rep.violation(
                "not-admitted:tree-api",
                format!("document {} is not described by the Element tree: {}", i + 1, detail),
                case.to_json(),
            );
            return;
        }
    }
    // mechanisms seen (evidence that the workload reaches what the anchors name)
    note_mechanisms(&obs.model, rep);
}

pub fn note_mechanisms(m: &SNode, rep: &mut Report) {
    fn go(m: &SNode, rep: &mut Report) {
        if m.occurrences > 1 {
            rep.count("positions_with_repeated_parent");
        }
        for a in &m.attrs {
            if !a.mandatory {
                rep.count("optional_attributes");
            }
        }
        for c in &m.children {
            if !c.mandatory {
                rep.count("optional_children");
            }
            if c.multiple {
                rep.count("vec_children");
            }
            if !c.mandatory && c.multiple {
                rep.count("optional_vec_children");
            }
            if c.node.string_typed() {
                rep.count("string_typed_children");
            }
            go(&c.node, rep);
        }
        if m.has_text && !m.string_typed() {
            rep.count("structs_with_text_field");
        }
    }
    go(m, rep);
}

// ---------------------------------------------------------------------------------------
// C04: well-formed Rust with unique legal names
// ---------------------------------------------------------------------------------------

/// classification of duplicate struct names by cause computed from the input
pub fn classify_duplicates(structs: &[RStruct], etree: Option<&ENode>, m: &SNode) -> Vec<Complaint> {
    let mut out = Vec::new();
    let mut names: Vec<&str> = structs.iter().map(|s| s.name.as_str()).collect();
    names.sort();
    let mut dups: Vec<&str> = Vec::new();
    for w in names.windows(2) {
        if w[0] == w[1] && !dups.contains(&w[0]) {
            dups.push(w[0]);
        }
    }
    if dups.is_empty() {
        return out;
    }
    let paths = etree.and_then(|e| struct_paths(e, m));
    for d in dups {
        let sig = match &paths {
            None => "dup-struct:unclassified".to_string(),
            Some(paths) => {
                let positions: Vec<&Vec<String>> = paths.iter().filter(|(n, _)| n == d).map(|(_, p)| p).collect();
                let traces: Vec<Vec<String>> = positions.iter().map(|p| p.iter().map(|n| pascal(n)).collect()).collect();
                let mut class = "identical-pascal-trace";
                let mut all_identical = true;
                for i in 0..traces.len() {
                    for j in i + 1..traces.len() {
                        if traces[i] != traces[j] {
                            all_identical = false;
                        }
                    }
                }
                if !all_identical {
                    // windows: smallest k with name == join(last k)
                    let window = |t: &Vec<String>| -> Option<Vec<String>> {
                        for k in 1..=t.len() {
                            if t[t.len() - k..].join("") == d {
                                return Some(t[t.len() - k..].to_vec());
                            }
                        }
                        None
                    };
                    let ws: Vec<Option<Vec<String>>> = traces.iter().map(window).collect();
                    if ws.iter().any(|w| w.is_none()) {
                        class = "unexplained";
                    } else {
                        // every pair must be either trace-identical or differ in its window sequence
                        class = "concat-ambiguity";
                        for i in 0..traces.len() {
                            for j in i + 1..traces.len() {
                                if traces[i] != traces[j] && ws[i] == ws[j] {
                                    class = "under-qualified";
                                }
                            }
                        }
                        // the listed finding is the ambiguity of a NEEDED qualification: a member that is
                        // qualified although its own PascalCase name occurs at a single position of the
                        // tree points at another cause
                        if class == "concat-ambiguity" {
                            let mut all: Vec<String> = Vec::new();
                            fn collect(m: &SNode, out: &mut Vec<String>) {
                                out.push(pascal(&m.name));
                                for c in &m.children {
                                    collect(&c.node, out);
                                }
                            }
                            collect(m, &mut all);
                            for (t, w) in traces.iter().zip(ws.iter()) {
                                let own = t.last().cloned().unwrap_or_default();
                                let k = w.as_ref().map(|w| w.len()).unwrap_or(1);
                                if k >= 2 && all.iter().filter(|n| **n == own).count() < 2 {
                                    class = "concat-of-needless-qualification";
                                }
                            }
                        }
                    }
                }
                format!("dup-struct:{}", class)
            }
        };
        out.push(Complaint {
            sig,
            detail: format!("struct {} is defined more than once", d),
        });
    }
    out
}

pub fn c04_complaints(out_text: &str, m: &SNode) -> Vec<Complaint> {
    let (structs, mut complaints) = extract::wellformed_complaints(out_text);
    if let Some(structs) = structs {
        let etree = extract::build_tree(&structs, "@", "$text").ok();
        let dups = classify_duplicates(&structs, etree.as_ref(), m);
        if dups.is_empty() && etree.is_none() && complaints.is_empty() {
            // names unique and legal, types defined, use counts fine, yet no pre-order tree:
            // this is an ordering matter (C09), not well-formedness
        }
        complaints.extend(dups);
    }
    complaints
}

fn duplicate_names(text: &str) -> Vec<String> {
    let mut names: Vec<String> = extract::parse_rendered(text)
        .map(|s| s.into_iter().map(|x| x.name).collect())
        .unwrap_or_default();
    names.sort();
    let mut d: Vec<String> = Vec::new();
    for w in names.windows(2) {
        if w[0] == w[1] && !d.contains(&w[0]) {
            d.push(w[0].clone());
        }
    }
    d
}

pub fn check_c04(case: &HistoryCase, obs: &Obs, rep: &mut Report) {
    for (label, text) in [("unsorted", &obs.out_unsorted), ("sorted", &obs.out_sorted)] {
        let complaints = if label == "unsorted" {
            c04_complaints(text, &obs.model)
        } else {
            // struct names do not depend on the sort option: duplicate names are classified on the
            // unsorted rendering (whose order is the model's); here only check they are the same ones
            let (_, mut c) = extract::wellformed_complaints(text);
            if duplicate_names(text) != duplicate_names(&obs.out_unsorted) {
                c.push(Complaint {
                    sig: "dup-struct:differs-with-sort-option".into(),
                    detail: "the sorted rendering defines other duplicate struct names than the unsorted one".into(),
                });
            }
            c
        };
        for c in &complaints {
            rep.violation(
                &c.sig,
                format!("{} ({} rendering)\noutput:\n{}", c.detail, label, text),
                case.to_json(),
            );
        }
        if label == "unsorted" {
            if let Ok(structs) = extract::parse_rendered(text) {
                rep.add("structs_checked", structs.len() as u64);
                for s in &structs {
                    rep.add("fields_checked", s.fields.len() as u64);
                    for f in &s.fields {
                        let id = &f.ident;
                        if id.ends_with("_attr") {
                            rep.count("attr_suffix_identifiers");
                        }
                        if id.starts_with("text_content") {
                            rep.count("text_content_identifiers");
                        }
                        if id.rsplit('_').next().map(|t| !t.is_empty() && t.chars().all(|c| c.is_ascii_digit())).unwrap_or(false) {
                            rep.count("numeric_suffix_identifiers");
                        }
                    }
                }
            }
        }
    }
}

// ---------------------------------------------------------------------------------------
// C09: field order
// ---------------------------------------------------------------------------------------

fn order_walk_unsorted(e: &ENode, m: &SNode, path: &str) -> Option<(String, String)> {
    let here = format!("{}/{}", path, m.name);
    // groups: a* t? c*
    let g = &e.group_order;
    let mut stage = 0;
    for ch in g.chars() {
        let s = match ch {
            'a' => 0,
            't' => 1,
            _ => 2,
        };
        if s < stage {
            return Some(("group-order".into(), format!("{}: field groups appear as {:?}, expected attributes, text, children", here, g)));
        }
        stage = s;
    }
    let got: Vec<&str> = e.attrs.iter().map(|a| a.bound.as_str()).collect();
    let want: Vec<&str> = m.attrs.iter().map(|a| attr_bound(&a.name)).collect();
    if got != want {
        let mut gs = got.clone();
        let mut ws = want.clone();
        gs.sort();
        ws.sort();
        if gs == ws {
            return Some(("attribute-order".into(), format!("{}: attributes rendered as {:?}, first-appearance order is {:?}", here, got, want)));
        }
        return Some(("field-set".into(), format!("{}: attributes {:?} vs expected {:?}", here, got, want)));
    }
    let got: Vec<&str> = e.children.iter().map(|a| a.bound.as_str()).collect();
    let want: Vec<&str> = m.children.iter().map(|a| child_bound(&a.name)).collect();
    if got != want {
        let mut gs = got.clone();
        let mut ws = want.clone();
        gs.sort();
        ws.sort();
        if gs == ws {
            return Some(("child-order".into(), format!("{}: children rendered as {:?}, first-appearance order is {:?}", here, got, want)));
        }
        return Some(("field-set".into(), format!("{}: children {:?} vs expected {:?}", here, got, want)));
    }
    for (ec, mc) in e.children.iter().zip(m.children.iter()) {
        if let Some(sub) = &ec.node {
            if let Some(v) = order_walk_unsorted(sub, &mc.node, &here) {
                return Some(v);
            }
        }
    }
    None
}

fn order_walk_sorted(e: &ENode, m: &SNode, path: &str) -> Option<(String, String)> {
    let here = format!("{}/{}", path, m.name);
    let g = &e.group_order;
    let mut stage = 0;
    for ch in g.chars() {
        let s = match ch {
            'a' => 0,
            't' => 1,
            _ => 2,
        };
        if s < stage {
            return Some(("group-order-sorted".into(), format!("{}: field groups appear as {:?}", here, g)));
        }
        stage = s;
    }
    let ap = pair_attrs(e, m)?;
    let names: Vec<&str> = ap.iter().map(|(_, ma)| ma.name.as_str()).collect();
    if !names.windows(2).all(|w| w[0] <= w[1]) {
        return Some(("sorted-attribute-order".into(), format!("{}: attributes with sort-by-name appear as {:?}", here, names)));
    }
    let cp = pair_children(e, m)?;
    let names: Vec<&str> = cp.iter().map(|(_, mc)| mc.name.as_str()).collect();
    if !names.windows(2).all(|w| w[0] <= w[1]) {
        return Some(("sorted-child-order".into(), format!("{}: children with sort-by-name appear as {:?}", here, names)));
    }
    for (ec, mc) in cp {
        if let Some(sub) = &ec.node {
            if let Some(v) = order_walk_sorted(sub, &mc.node, &here) {
                return Some(v);
            }
        }
    }
    None
}

fn block_multiset(structs: &[RStruct]) -> Vec<(String, Option<String>, Vec<String>)> {
    let mut v: Vec<(String, Option<String>, Vec<String>)> = structs
        .iter()
        .map(|s| {
            let mut f: Vec<String> = s
                .fields
                .iter()
                .map(|f| format!("{:?}|{}|{}|{}|{}", f.rename, f.ident, f.optional, f.vec, f.base))
                .collect();
            f.sort();
            (s.name.clone(), s.derive.clone(), f)
        })
        .collect();
    v.sort();
    v
}

pub fn check_c09(case: &HistoryCase, obs: &Obs, rep: &mut Report) {
    if !model::bound_names_unique(&obs.model) {
        rep.skipped_precondition += 1;
        return;
    }
    let su = match extract::parse_rendered(&obs.out_unsorted) {
        Ok(s) => s,
        Err(e) => {
            rep.inconclusive(&format!("extractor: {}", short(&e)));
            return;
        }
    };
    let ss = match extract::parse_rendered(&obs.out_sorted) {
        Ok(s) => s,
        Err(e) => {
            rep.inconclusive(&format!("extractor(sorted): {}", short(&e)));
            return;
        }
    };
    // switching the option changes nothing but order
    if block_multiset(&su) != block_multiset(&ss) {
        rep.violation(
            "sort-changes-content",
            format!("sorted and unsorted renderings differ in more than order\nunsorted:\n{}\nsorted:\n{}", obs.out_unsorted, obs.out_sorted),
            case.to_json(),
        );
        return;
    }
    let names_unique = {
        let mut n: Vec<&str> = su.iter().map(|s| s.name.as_str()).collect();
        n.sort();
        n.windows(2).all(|w| w[0] != w[1]) && !n.contains(&"String")
    };
    match extract::build_tree(&su, "@", "$text") {
        Ok(etree) => {
            if let Some((sig, detail)) = order_walk_unsorted(&etree, &obs.model, "") {
                rep.violation(&format!("order:{}", sig), format!("{}\noutput:\n{}", detail, obs.out_unsorted), case.to_json());
                return;
            }
            rep.add("structs_in_preorder_checked", su.len() as u64);
        }
        Err(e) => {
            if names_unique && e.contains("pre-order") {
                rep.violation(
                    "order:struct-order",
                    format!("struct definitions do not follow a pre-order walk of the field order: {}\noutput:\n{}", e, obs.out_unsorted),
                    case.to_json(),
                );
            } else {
                rep.inconclusive(&format!("extractor: {}", short(&e)));
            }
            return;
        }
    }
    match extract::build_tree(&ss, "@", "$text") {
        Ok(etree) => {
            if let Some((sig, detail)) = order_walk_sorted(&etree, &obs.model, "") {
                rep.violation(&format!("order:{}", sig), format!("{}\noutput:\n{}", detail, obs.out_sorted), case.to_json());
                return;
            }
        }
        Err(e) => {
            if names_unique && e.contains("pre-order") {
                rep.violation(
                    "order:struct-order-sorted",
                    format!("sorted: struct definitions do not follow a pre-order walk of the field order: {}\noutput:\n{}", e, obs.out_sorted),
                    case.to_json(),
                );
            } else {
                rep.inconclusive(&format!("extractor(sorted): {}", short(&e)));
            }
            return;
        }
    }
    // evidence: how hard was the order exercised
    fn late(m: &SNode, rep: &mut Report) {
        if m.occurrences > 1 && (m.attrs.len() > 1 || m.children.len() > 1) {
            rep.count("positions_with_several_fields_and_occurrences");
        }
        for c in &m.children {
            late(&c.node, rep);
        }
    }
    late(&obs.model, rep);
}

// ---------------------------------------------------------------------------------------
// C14: struct names
// ---------------------------------------------------------------------------------------

/// a disambiguating suffix: `_?[0-9]+`, or a bare `_` when the plain name would be reserved
fn suffix_ok_for(base: &str, s: &str) -> bool {
    if s == "_" {
        return ["Self", "String", "Option", "Vec"].contains(&base);
    }
    let t = s.strip_prefix('_').unwrap_or(s);
    !t.is_empty() && t.chars().all(|c| c.is_ascii_digit())
}

/// fallback mapping when the structs are not in pre-order: follow field types by NAME from the first
/// struct, pairing fields with model children by bound name (only when that is unambiguous)
fn struct_paths_by_name(structs: &[RStruct], m: &SNode) -> Option<Vec<(String, Vec<String>)>> {
    fn go(structs: &[RStruct], s: &RStruct, m: &SNode, path: &mut Vec<String>, out: &mut Vec<(String, Vec<String>)>, depth: usize) -> bool {
        if depth > 400 {
            return false;
        }
        path.push(m.name.clone());
        out.push((s.name.clone(), path.clone()));
        for f in &s.fields {
            let b = f.binding();
            if b == "$text" || b.starts_with('@') || f.base == "String" {
                continue;
            }
            let cands: Vec<&model::SChild> = m.children.iter().filter(|c| child_bound(&c.name) == b).collect();
            if cands.len() != 1 {
                return false;
            }
            let target = match structs.iter().find(|x| x.name == f.base) {
                Some(t) => t,
                None => return false,
            };
            if !go(structs, target, &cands[0].node, path, out, depth + 1) {
                return false;
            }
        }
        path.pop();
        true
    }
    let mut out = Vec::new();
    let mut path = Vec::new();
    if go(structs, structs.first()?, m, &mut path, &mut out, 0) {
        Some(out)
    } else {
        None
    }
}

pub fn check_c14(case: &HistoryCase, obs: &Obs, rep: &mut Report) {
    let (structs, paths) = match extract_tree(&obs.out_unsorted) {
        Ok((structs, etree)) => match struct_paths(&etree, &obs.model) {
            Some(p) => (structs, p),
            None => {
                rep.inconclusive("extracted tree does not correspond to the model (C03 reports the cause)");
                return;
            }
        },
        Err(e) => {
            // not in pre-order (C04/C09 report that): names can still be judged by following types by name
            match extract::parse_rendered(&obs.out_unsorted).ok().and_then(|st| struct_paths_by_name(&st, &obs.model).map(|p| (st, p))) {
                Some(x) => {
                    rep.count("cases_mapped_by_type_name");
                    x
                }
                None => {
                    rep.inconclusive(&format!("extractor: {}", short(&e)));
                    return;
                }
            }
        }
    };
    // all positions (String-typed leaves included) by Pascal name
    let mut all_positions: Vec<String> = Vec::new();
    fn collect(m: &SNode, out: &mut Vec<String>) {
        out.push(pascal(&m.name));
        for c in &m.children {
            collect(&c.node, out);
        }
    }
    collect(&obs.model, &mut all_positions);

    // first struct is the root's
    let root_p = pascal(&obs.model.name);
    let first = &structs[0].name;
    if !(first == &root_p || first.strip_prefix(root_p.as_str()).map(|x| suffix_ok_for(&root_p, x)).unwrap_or(false)) {
        rep.violation(
            "name:first-struct-not-root",
            format!("first struct is {} but the root element {} has PascalCase form {}\n{}", first, obs.model.name, root_p, obs.out_unsorted),
            case.to_json(),
        );
        return;
    }
    for (name, path) in &paths {
        let trace: Vec<String> = path.iter().map(|n| pascal(n)).collect();
        let own = trace.last().unwrap();
        if own.is_empty() {
            rep.skipped_precondition += 1;
            continue;
        }
        let occurrences = all_positions.iter().filter(|p| *p == own).count();
        rep.count("struct_names_checked");
        let mut ok = false;
        let mut k_used = 0;
        for k in 1..=trace.len() {
            let base = trace[trace.len() - k..].join("");
            if *name == base || name.strip_prefix(base.as_str()).map(|x| suffix_ok_for(&base, x)).unwrap_or(false) {
                ok = true;
                k_used = k;
                break;
            }
        }
        if !ok {
            rep.violation(
                "name:not-ancestor-chain",
                format!(
                    "struct {} for element path {:?} is not its PascalCase name preceded by its nearest ancestors (trace {:?})\n{}",
                    name, path, trace, obs.out_unsorted
                ),
                case.to_json(),
            );
            return;
        }
        if k_used > 1 {
            rep.count("qualified_names");
        }
        if occurrences == 1 && name != own && !name.strip_prefix(own.as_str()).map(|x| suffix_ok_for(own, x)).unwrap_or(false) {
            rep.violation(
                "name:needless-qualification",
                format!(
                    "element {:?} has a PascalCase name ({}) that occurs at a single position, but its struct is called {}\n{}",
                    path, own, name, obs.out_unsorted
                ),
                case.to_json(),
            );
            return;
        }
        if occurrences > 1 {
            rep.count("names_shared_by_several_positions");
        }
    }
}

// ---------------------------------------------------------------------------------------
// driver shared by C01/C03/C04/C09/C14
// ---------------------------------------------------------------------------------------

pub type Oracle = fn(&HistoryCase, &Obs, &mut Report);

pub fn run_case(case: &HistoryCase, oracle: Oracle, rep: &mut Report) {
    crate::report::journal_enter(|| case.to_json());
    rep.evaluations += 1;
    match observe(case) {
        Ok(obs) => {
            let desc = model::canon_of_model(&obs.model).describe();
            let nontrivial = obs.model.count_nodes() > 1 || !obs.model.attrs.is_empty();
            if nontrivial {
                rep.nontrivial.insert(gen::fnv64(format!("{}|{}", desc, obs.out_unsorted).as_bytes()));
            }
            if rep.samples.len() < 3 && nontrivial && rep.evaluations % 7 == 3 {
                rep.sample(json!({"documents": obs.texts, "rendered": obs.out_unsorted, "reference_schema": desc}));
            }
            rep.add("documents", case.docs.len() as u64);
            rep.max("max_documents_in_history", case.docs.len() as u64);
            // what kind of executions were observed
            let fam: &str = case.origin.split(':').take(2).last().unwrap_or("");
            let fam = if case.origin.starts_with("random:") { fam } else { case.origin.split(':').next().unwrap_or("") };
            rep.count(&format!("histories from family {}", fam));
            if case.across_threads {
                rep.count("histories with every step on a fresh thread");
            }
            if case.failed_parse_first {
                rep.count("histories preceded by a rejected parse on the same thread");
            }
            if case.render_between && case.docs.len() > 1 {
                rep.count("histories rendered after every step before the next extension");
            }
            rep.add("schema_positions_in_reference_models", obs.model.count_nodes() as u64);
            rep.max("max_elements_in_one_document", case.docs.iter().map(|d| d.root.count_elems()).max().unwrap_or(0) as u64);
            rep.max("max_depth_of_one_document", case.docs.iter().map(|d| d.root.depth()).max().unwrap_or(0) as u64);
            oracle(case, &obs, rep);
        }
        Err(ObsError::Parse(i, e)) => {
            // generated documents are well-formed: a parse error is a violation of every schema property
            rep.violation(
                "wellformed-document-rejected",
                format!("document {} of a well-formed history was rejected: {}", i + 1, e),
                case.to_json(),
            );
        }
        Err(ObsError::Panic(p)) => {
            rep.violation("panic", p, case.to_json());
        }
    }
}

// ---------------------------------------------------------------------------------------
// Threshold families: deterministic histories that cross size / count / depth / length
// boundaries which small random documents never reach (powers of two in particular)
// ---------------------------------------------------------------------------------------

fn el(name: &str, kids: Vec<Elem>) -> Elem {
    let mut e = Elem::new(name);
    e.items = kids.into_iter().map(gen::Item::Elem).collect();
    e
}

fn leafy(name: &str) -> Elem {
    let mut e = Elem::new(name);
    e.attrs.push(("id".into(), "1".into()));
    e.items.push(gen::Item::Elem(Elem::new("leaf")));
    e.items.push(gen::Item::Elem(Elem::new("leaf")));
    e.items.push(gen::Item::Text("t".into()));
    e
}

fn chain(names: &dyn Fn(usize) -> String, depth: usize, inner: Elem) -> Elem {
    let mut cur = inner;
    for d in (0..depth).rev() {
        cur = el(&names(d), vec![cur]);
    }
    cur
}

pub fn threshold_cases(heavy: bool) -> Vec<HistoryCase> {
    let mut out: Vec<HistoryCase> = Vec::new();
    let mut push = |origin: String, docs: Vec<Doc>| out.push(HistoryCase::plain(&format!("threshold:{}", origin), docs));
    let doc = |e: Elem| Doc::plain(e);

    // T1: a parent occurring N times, each time with the child; then seen once more
    let mut ns: Vec<usize> = vec![254, 255, 256, 257, 258, 511, 512, 513];
    if heavy {
        ns.extend_from_slice(&[65_535, 65_536, 65_537]);
    }
    for &n in &ns {
        let p = || el("p", vec![Elem::new("c")]);
        let r = el("r", (0..n).map(|_| p()).collect());
        push(format!("T1-occurrences-{}", n), vec![doc(r.clone())]);
        push(format!("T1-occurrences-{}+1doc", n), vec![doc(r), doc(el("r", vec![p()]))]);
    }
    // T2: exactly N same-named children inside ONE occurrence of an already known parent
    let mut ns: Vec<usize> = vec![255, 256, 257, 512, 768, 1024];
    if heavy {
        ns.extend_from_slice(&[65_536, 131_072]);
    }
    for &n in &ns {
        let small = el("r", vec![Elem::new("item")]);
        let big = el("r", (0..n).map(|_| Elem::new("item")).collect());
        push(format!("T2-siblings-{}-small-big", n), vec![doc(small.clone()), doc(big.clone())]);
        push(format!("T2-siblings-{}-big-small", n), vec![doc(big.clone()), doc(small.clone())]);
        push(format!("T2-siblings-{}-big-big", n), vec![doc(big.clone()), doc(big.clone())]);
        // the same inside one document: two occurrences of p
        let one = el("r", vec![el("p", vec![Elem::new("item")]), el("p", (0..n).map(|_| Elem::new("item")).collect())]);
        push(format!("T2-siblings-{}-one-doc", n), vec![doc(one)]);
    }
    // T3: M distinct child names / attribute names under one parent
    for &m in &[63usize, 64, 65, 66, 70, 127, 128, 129, 255, 256, 257, 258, 300] {
        let kids = |upto: usize| -> Vec<Elem> { (0..upto).map(|i| Elem::new(&format!("c{}", i))).collect() };
        // (i) a late child repeats inside the same occurrence
        let mut k = kids(m);
        k.push(Elem::new(&format!("c{}", m - 1)));
        push(format!("T3-distinct-{}-late-repeat", m), vec![doc(el("wide", k))]);
        // (ii) ... only in a later document
        let mut k2 = kids(m);
        k2.push(Elem::new(&format!("c{}", m - 1)));
        push(format!("T3-distinct-{}-late-repeat-later-doc", m), vec![doc(el("wide", kids(m))), doc(el("wide", kids(3))), doc(el("wide", k2))]);
        // (iii) a later occurrence lacks the last four children (start-tag and empty-tag spelling)
        let two = el("r", vec![el("p", kids(m)), el("p", kids(m - 4))]);
        push(format!("T3-distinct-{}-late-absent", m), vec![doc(two)]);
        let two = el("r", vec![el("p", kids(m)), Elem::new("p")]);
        push(format!("T3-distinct-{}-all-absent", m), vec![doc(two)]);
        // (iv) text-only late children repeating (String vs Vec<String>)
        let mut k3: Vec<Elem> = (0..m)
            .map(|i| {
                let mut e = Elem::new(&format!("c{}", i));
                e.items.push(gen::Item::Text("v".into()));
                e
            })
            .collect();
        let last = k3[m - 1].clone();
        k3.push(last);
        push(format!("T3-distinct-{}-late-text-repeat", m), vec![doc(el("wide", k3))]);
        // (v) M distinct attributes, a later occurrence lacks the last three
        let mut a = Elem::new("p");
        for i in 0..m {
            a.attrs.push((format!("a{}", i), "v".into()));
        }
        let mut b = Elem::new("p");
        for i in 0..m - 3 {
            b.attrs.push((format!("a{}", i), "v".into()));
        }
        push(format!("T3-attributes-{}", m), vec![doc(el("r", vec![a, b]))]);
    }
    // T4: deep chains (same name, distinct names, alternating), with structure at the bottom
    let mut depths: Vec<usize> = vec![7, 8, 9, 10, 12, 17, 33, 63, 64, 65, 127, 128, 129, 130, 131, 140, 200];
    if heavy {
        depths.extend_from_slice(&[255, 256, 257, 258, 300]);
    }
    for &d in &depths {
        let same = |_: usize| "a".to_string();
        let distinct = |i: usize| format!("n{}", i + 1);
        let alt = |i: usize| if i % 2 == 0 { "section".to_string() } else { "item".to_string() };
        push(format!("T4-depth-{}-same-name", d), vec![doc(chain(&same, d, leafy("a")))]);
        push(format!("T4-depth-{}-distinct", d), vec![doc(chain(&distinct, d, leafy("bottom")))]);
        push(format!("T4-depth-{}-alternating", d), vec![doc(chain(&alt, d, leafy("item")))]);
        // two deep branches that differ only at the top, same names below
        if d <= 140 {
            let below = |_: usize| "s".to_string();
            let left = el("left", vec![chain(&below, d, leafy("s"))]);
            let right = el("right", vec![chain(&below, d, leafy("s"))]);
            push(format!("T4-depth-{}-two-branches", d), vec![doc(el("r", vec![left, right]))]);
            // the deep part only arrives with the third document
            push(
                format!("T4-depth-{}-third-doc", d),
                vec![doc(el("n1", vec![])), doc(el("n1", vec![Elem::new("n2")])), doc(chain(&distinct, d, leafy("bottom")))],
            );
        }
    }
    // T5: long text / CDATA nodes with a multi-byte character straddling a power-of-two offset
    for &b in &[64usize, 128, 255, 256, 257, 512, 1024, 2048, 4096] {
        for (ci, ch) in ["é", "€", "😀"].iter().enumerate() {
            for k in 1..=3usize {
                if b <= k {
                    continue;
                }
                let text = format!("{}{}{}", "x".repeat(b - k), ch, "tail");
                let mut t = Elem::new("t");
                t.items.push(gen::Item::Text(text.clone()));
                let mut c = Elem::new("t");
                c.items.push(gen::Item::CData(text.clone()));
                let mut w = Elem::new("w");
                w.attrs.push(("k".into(), text.clone()));
                w.items.push(gen::Item::Text(text));
                push(format!("T5-text-{}-{}-{}", b, ci, k), vec![doc(el("r", vec![t, w.clone()])), doc(el("r", vec![c, w]))]);
            }
        }
    }
    out
}

// ---------------------------------------------------------------------------------------
// T7: magnitudes that are NOT powers of two. Every dimension the threshold families cross at 2^k is
// crossed again at decimal round numbers and at seeded log-uniform random magnitudes, so that a
// misbehaviour tied to an unrelated constant (exactly 1000 siblings, a 300-byte name, the 37th
// document) has a chance proportional to the number of seeds run, and the round numbers are certain.
// ---------------------------------------------------------------------------------------

/// log-uniform integer in [lo, hi]
fn log_uniform(r: &mut gen::Rng, lo: usize, hi: usize) -> usize {
    let (a, b) = ((lo as f64).ln(), ((hi + 1) as f64).ln());
    let u = r.below(1_000_000) as f64 / 1_000_000.0;
    let v = (a + (b - a) * u).exp() as usize;
    v.clamp(lo, hi)
}

fn magnitudes(r: &mut gen::Rng, round: &[usize], lo: usize, hi: usize, n_random: usize) -> Vec<usize> {
    let mut v: Vec<usize> = round.iter().copied().filter(|x| *x >= lo && *x <= hi).collect();
    for _ in 0..n_random {
        v.push(log_uniform(r, lo, hi));
    }
    v.sort_unstable();
    v.dedup();
    v
}

pub fn magnitude_cases(seed: u64, thorough: bool) -> Vec<HistoryCase> {
    let mut out: Vec<HistoryCase> = Vec::new();
    let mut push = |origin: String, docs: Vec<Doc>| out.push(HistoryCase::plain(&format!("magnitude:{}", origin), docs));
    let doc = |e: Elem| Doc::plain(e);
    let mut r = gen::Rng::derive(seed, "magnitudes", 0);
    let k = if thorough { 24 } else { 5 };
    let round: [usize; 24] = [
        10, 20, 30, 50, 99, 100, 101, 150, 200, 250, 300, 365, 400, 500, 600, 750, 999, 1000, 1001, 1500, 2000, 3000, 5000, 10_000,
    ];

    // M1: N occurrences of a parent (all with the child), then one more document; and one occurrence
    // in the middle lacking the child (must become Option however many came before and after)
    for n in magnitudes(&mut r, &round, 3, if thorough { 30_000 } else { 10_000 }, k) {
        let p = || el("p", vec![Elem::new("c")]);
        let all = el("r", (0..n).map(|_| p()).collect());
        push(format!("M1-occurrences-{}+1doc", n), vec![doc(all), doc(el("r", vec![p()]))]);
        let hole = r.below(n);
        let holed = el("r", (0..n).map(|i| if i == hole { Elem::new("p") } else { p() }).collect());
        push(format!("M1-occurrences-{}-hole-at-{}", n, hole), vec![doc(holed)]);
        let last = el("r", (0..n).map(|i| if i == n - 1 { el("p", vec![Elem::new("c"), Elem::new("c")]) } else { p() }).collect());
        push(format!("M1-occurrences-{}-last-doubles", n), vec![doc(last)]);
    }
    // M2: exactly N same-named children in one occurrence of a known parent
    for n in magnitudes(&mut r, &round, 3, if thorough { 30_000 } else { 10_000 }, k) {
        let small = el("r", vec![Elem::new("item")]);
        let big = el("r", (0..n).map(|_| Elem::new("item")).collect());
        push(format!("M2-siblings-{}-small-big", n), vec![doc(small.clone()), doc(big.clone())]);
        push(format!("M2-siblings-{}-big-small", n), vec![doc(big.clone()), doc(small)]);
        let one = el("r", vec![el("p", vec![Elem::new("item")]), el("p", (0..n).map(|_| Elem::new("item")).collect()), Elem::new("p")]);
        push(format!("M2-siblings-{}-one-doc", n), vec![doc(one)]);
    }
    // M3: M distinct child names and M distinct attributes under one parent; a late one repeats, a
    // random one is absent from a later occurrence
    for m in magnitudes(&mut r, &round, 3, if thorough { 1500 } else { 700 }, k) {
        let kids = |upto: usize| -> Vec<Elem> { (0..upto).map(|i| Elem::new(&format!("c{}", i))).collect() };
        let rep = r.below(m);
        let mut k1 = kids(m);
        k1.push(Elem::new(&format!("c{}", rep)));
        push(format!("M3-distinct-{}-repeat-{}", m, rep), vec![doc(el("wide", k1))]);
        let gone = r.below(m);
        let mut k2 = kids(m);
        k2.remove(gone);
        push(format!("M3-distinct-{}-absent-{}", m, gone), vec![doc(el("r", vec![el("p", kids(m)), el("p", k2.clone())]))]);
        push(format!("M3-distinct-{}-absent-{}-later-doc", m, gone), vec![doc(el("p", kids(m))), doc(el("p", k2))]);
        let mut a = Elem::new("p");
        let mut b = Elem::new("p");
        let agone = r.below(m);
        for i in 0..m {
            a.attrs.push((format!("a{}", i), "v".into()));
            if i != agone {
                b.attrs.push((format!("a{}", i), "v".into()));
            }
        }
        push(format!("M3-attributes-{}-absent-{}", m, agone), vec![doc(el("r", vec![a.clone(), b.clone()]))]);
        push(format!("M3-attributes-{}-absent-{}-later-doc", m, agone), vec![doc(a), doc(b)]);
    }
    // M3b: every width 2..=130 — the last distinct child occurs exactly twice (and, for widths <= 40, every
    // position in turn): a container that changes representation at some width shows at exactly one m
    for m in 2usize..=130 {
        let kids = |upto: usize| -> Vec<Elem> { (0..upto).map(|i| Elem::new(&format!("c{}", i))).collect() };
        let positions: Vec<usize> = if m <= 40 { (0..m).collect() } else { vec![m - 1] };
        for pos in positions {
            let mut k1 = kids(m);
            k1.push(Elem::new(&format!("c{}", pos)));
            push(format!("M3b-width-{}-twice-{}", m, pos), vec![doc(el("wide", k1))]);
        }
    }
    // M4: chains of depth D (bounded by the property's depth 200)
    for d in magnitudes(&mut r, &[5, 6, 10, 11, 20, 25, 40, 50, 75, 99, 100, 101, 150, 199], 3, 199, k) {
        let distinct = |i: usize| format!("n{}", i + 1);
        let same = |_: usize| "a".to_string();
        push(format!("M4-depth-{}-distinct", d), vec![doc(chain(&distinct, d, leafy("bottom")))]);
        push(format!("M4-depth-{}-same-name", d), vec![doc(chain(&same, d, leafy("a")))]);
        // a second document whose chain stops early: everything below becomes optional
        let cut = 1 + r.below(d);
        push(
            format!("M4-depth-{}-cut-at-{}", d, cut),
            vec![doc(chain(&distinct, d, leafy("bottom"))), doc(chain(&distinct, cut, Elem::new(&format!("n{}", cut + 1))))],
        );
    }
    // M5: element and attribute names of length L (identifier characters only; mixed case, digits,
    // separators inside so that the PascalCase / snake_case conversions have work to do)
    for l in magnitudes(&mut r, &[2, 3, 10, 31, 32, 33, 50, 63, 64, 65, 100, 127, 128, 200, 255, 256, 257, 300, 500, 1000, 4096, 10_000], 2, if thorough { 70_000 } else { 12_000 }, k) {
        let alphabet: &[u8] = b"abcdefXYZ019_-.";
        let mut name = String::from("n");
        while name.len() < l {
            let c = alphabet[r.below(alphabet.len())] as char;
            name.push(c);
        }
        if name.ends_with(['-', '.']) {
            name.pop();
            name.push('z');
        }
        let mut e = Elem::new(&name);
        e.attrs.push((name.clone(), "v".into()));
        e.items.push(gen::Item::Text("t".into()));
        let two = el("r", vec![e.clone(), e.clone(), el("q", vec![e.clone()])]);
        push(format!("M5-name-length-{}", l), vec![doc(two), doc(el("r", vec![e]))]);
    }
    // M6: N documents; the child is absent from exactly one of them (position seeded), doubled in one
    for n in magnitudes(&mut r, &[3, 4, 5, 7, 10, 17, 20, 33, 50, 65, 100, 129, 200, 257, 500, 1000], 3, if thorough { 5000 } else { 1200 }, k) {
        let with = || el("r", vec![Elem::new("c"), el("d", vec![Elem::new("e")])]);
        let hole = r.below(n);
        let dbl = r.below(n);
        let docs: Vec<Doc> = (0..n)
            .map(|i| {
                if i == hole {
                    doc(el("r", vec![el("d", vec![Elem::new("e")])]))
                } else if i == dbl {
                    doc(el("r", vec![Elem::new("c"), el("d", vec![Elem::new("e"), Elem::new("e")])]))
                } else {
                    doc(with())
                }
            })
            .collect();
        push(format!("M6-documents-{}-hole-{}-double-{}", n, hole, dbl), docs);
    }
    out
}

/// thresholds that are cheap enough for the relational monitors (a subset, by label prefix)
pub fn threshold_cases_light() -> Vec<HistoryCase> {
    threshold_cases(false)
        .into_iter()
        .filter(|c| {
            let docs_small = c.docs.iter().map(|d| d.root.count_elems()).sum::<usize>() <= 1400;
            docs_small
        })
        .collect()
}


// ---------------------------------------------------------------------------------------
// T6: exhaustive occurrence patterns — every assignment of (absent / once / twice) to each of the
// children over k occurrences of one parent, supplied inside one document, across documents, and one
// level deeper (under a repeated grandparent)
// ---------------------------------------------------------------------------------------

/// number of patterns for `k` occurrences over `names.len()` children
pub fn pattern_count(k: usize, n_children: usize) -> u64 {
    3u64.pow((k * n_children) as u32)
}

/// the `index`-th pattern as k occurrences of element `p`
pub fn pattern_occurrences(index: u64, k: usize, names: &[&str]) -> Vec<Elem> {
    let mut x = index;
    let mut out = Vec::with_capacity(k);
    for _ in 0..k {
        let mut p = Elem::new("p");
        for n in names {
            let m = (x % 3) as usize;
            x /= 3;
            for _ in 0..m {
                p.items.push(gen::Item::Elem(Elem::new(n)));
            }
        }
        out.push(p);
    }
    out
}

/// three histories for one pattern: all occurrences in one document; one occurrence per document
/// (root = the parent itself); occurrences spread under two occurrences of a grandparent
pub fn pattern_cases(index: u64, k: usize, names: &[&str]) -> Vec<HistoryCase> {
    let occ = pattern_occurrences(index, k, names);
    let label = format!("pattern:{}:{}:{}", k, names.len(), index);
    let one_doc = el("r", occ.clone());
    let across: Vec<Doc> = occ.iter().map(|p| Doc::plain(p.clone())).collect();
    let split = k / 2;
    let nested = el("r", vec![el("q", occ[..split].to_vec()), el("q", occ[split..].to_vec())]);
    vec![
        HistoryCase::plain(&format!("{}:one-document", label), vec![Doc::plain(one_doc)]),
        HistoryCase::plain(&format!("{}:across-documents", label), across),
        HistoryCase::plain(&format!("{}:nested", label), vec![Doc::plain(nested)]),
    ]
}

/// the light thresholds plus the magnitude cases that are small enough for the relational monitors
pub fn threshold_and_magnitude_light(seed: u64, thorough: bool) -> Vec<HistoryCase> {
    let mut v = threshold_cases_light();
    v.extend(magnitude_cases(seed, thorough).into_iter().filter(|c| {
        c.docs.len() <= 40 && c.docs.iter().map(|d| d.root.count_elems()).sum::<usize>() <= 1400 && c.texts().iter().map(|t| t.len()).sum::<usize>() <= 60_000
    }));
    v
}
