//! Small workloads meant to run under Miri (`cargo +nightly miri run -- <mode> <seed> <count>`):
//! the interpreter is the monitor (undefined behaviour, data races, leaks); this program only
//! drives the public API the way the big monitors do and prints what it did.
#![allow(dead_code)]

#[path = "../../xsgmon/src/gen.rs"]
mod gen;

use std::panic::{catch_unwind, AssertUnwindSafe};

use gen::{Profile, ReaderKind, Rng, Surface};
use quick_xml::reader::Reader;
use xml_schema_generator::{extend_struct, into_struct, merge_necessity, Element, Necessity, Options, SortBy};

fn parse(bytes: &[u8], kind: ReaderKind) -> Result<Element<String>, String> {
    match kind {
        ReaderKind::Chunky(seed, max) => {
            let mut r = Reader::from_reader(gen::ChunkyReader::new(bytes, seed, max));
            into_struct(&mut r).map_err(|e| e.to_string())
        }
        ReaderKind::BufReader(cap) => {
            let mut r = Reader::from_reader(std::io::BufReader::with_capacity(cap.max(1), bytes));
            into_struct(&mut r).map_err(|e| e.to_string())
        }
        _ => {
            let mut r = Reader::from_reader(bytes);
            into_struct(&mut r).map_err(|e| e.to_string())
        }
    }
}

fn extend(bytes: &[u8], root: Element<String>) -> Result<Element<String>, String> {
    let mut r = Reader::from_reader(bytes);
    extend_struct(&mut r, root).map_err(|e| e.to_string())
}

fn valid_text(r: &mut Rng) -> String {
    let p = Profile { n_docs: (1, 1), max_depth: 3, max_children: 3, ..if r.chance(1, 2) { Profile::tiny() } else { Profile::adversarial() } };
    let d = gen::random_history(r, &p, "m").into_iter().next().unwrap();
    gen::write_doc(&d, &Surface::seeded(r.next()))
}

/// C07 slice: hostile bytes through parse / extend / render
fn mode_bytes(seed: u64, count: u64) -> (u64, u64, u64) {
    let (mut ok, mut err, mut panics) = (0, 0, 0);
    for i in 0..count {
        let mut r = Rng::derive(seed, "miri-bytes", i);
        let text = valid_text(&mut r);
        let bytes = match r.below(4) {
            0 => text.clone().into_bytes(),
            1 => gen::random_xmlish_bytes(&mut r, 60),
            _ => gen::mutate_bytes(text.as_bytes(), &mut r),
        };
        let kind = ReaderKind::random(&mut r);
        let res = catch_unwind(AssertUnwindSafe(|| {
            let t = parse(&bytes, kind);
            if let Ok(tree) = &t {
                let _ = tree.to_serde_struct(&Options::quick_xml_de());
                let mut o = Options::serde_xml_rs();
                o.sort = SortBy::XmlName;
                let _ = tree.to_serde_struct(&o);
            }
            if let Ok(base) = parse(text.as_bytes(), ReaderKind::Slice) {
                if let Ok(t2) = extend(&bytes, base) {
                    let _ = t2.to_serde_struct(&Options::quick_xml_de());
                }
            }
            t.is_ok()
        }));
        match res {
            Ok(true) => ok += 1,
            Ok(false) => err += 1,
            Err(_) => panics += 1,
        }
    }
    (ok, err, panics)
}

/// C05 slice: threads parse independently and render one shared tree concurrently
fn mode_threads(seed: u64, count: u64) -> (u64, u64, u64) {
    let mut differing = 0;
    let mut runs = 0;
    for i in 0..count {
        let mut r = Rng::derive(seed, "miri-threads", i);
        let p = Profile { n_docs: (1, 2), max_depth: 3, max_children: 4, pool: gen::Pool::Collide, ..Profile::tiny() };
        let docs = gen::random_history(&mut r, &p, "t");
        let texts: Vec<String> = docs.iter().map(|d| gen::write_doc(d, &Surface::plain())).collect();
        let run = |texts: &[String]| -> Option<String> {
            let mut t = parse(texts[0].as_bytes(), ReaderKind::Slice).ok()?;
            for x in &texts[1..] {
                t = extend(x.as_bytes(), t).ok()?;
            }
            Some(t.to_serde_struct(&Options::quick_xml_de()))
        };
        let base = run(&texts);
        let shared: Option<Element<String>> = parse(texts[0].as_bytes(), ReaderKind::Slice).ok();
        let outs: Vec<Option<String>> = std::thread::scope(|s| {
            let hs: Vec<_> = (0..3)
                .map(|t| {
                    let texts = &texts;
                    let shared = &shared;
                    s.spawn(move || {
                        if t == 0 {
                            run(texts)
                        } else {
                            shared.as_ref().map(|e| e.to_serde_struct(&Options::quick_xml_de()))
                        }
                    })
                })
                .collect();
            hs.into_iter().map(|h| h.join().unwrap()).collect()
        });
        runs += 3;
        if outs[0] != base || outs[1] != outs[2] {
            differing += 1;
        }
    }
    (runs, differing, 0)
}

/// C15 slice: merges of owned Strings (moves, drops)
fn mode_merge(seed: u64, count: u64) -> (u64, u64, u64) {
    let syms = ["a", "b", "c", "d", "e", "f"];
    let mut bad = 0;
    for i in 0..count {
        let mut r = Rng::derive(seed, "miri-merge", i);
        let mut mk = |r: &mut Rng| -> Vec<Necessity<String>> {
            let mut pool: Vec<usize> = (0..syms.len()).collect();
            r.shuffle(&mut pool);
            pool.truncate(r.below(6));
            pool.into_iter().map(|x| if r.chance(1, 2) { Necessity::Mandatory(syms[x].to_string()) } else { Necessity::Optional(syms[x].to_string()) }).collect()
        };
        let v = mk(&mut r);
        let o = mk(&mut r);
        let want_len = v.len() + o.iter().filter(|y| !v.iter().any(|x| x.inner_t() == y.inner_t())).count();
        let m = merge_necessity(v, o);
        if m.len() != want_len {
            bad += 1;
        }
    }
    (count, bad, 0)
}

/// C16 slice: random construction operations on Element<String> and Element<&str>
fn mode_ops(seed: u64, count: u64) -> (u64, u64, u64) {
    let names = ["a", "b", "c", "d"];
    let mut dup = 0;
    for i in 0..count {
        let mut r = Rng::derive(seed, "miri-ops", i);
        let mut root: Element<String> = Element::new("a".to_string(), vec![]);
        let mut sroot: Element<&'static str> = Element::new("a", vec!["x"]);
        for _ in 0..r.range(3, 14) {
            let n = *r.pick(&names);
            match r.below(7) {
                0 | 1 => {
                    let mut c = Element::new(n.to_string(), vec!["k".to_string()]);
                    c.add_unique_child(Element::new("d".to_string(), vec![]));
                    root.add_unique_child(c);
                    sroot.add_unique_child(Element::new(n, vec![]));
                }
                2 => {
                    root.set_child_optional(&n.to_string());
                    sroot.set_child_optional(&n);
                }
                3 => {
                    let _ = root.remove_child(&n.to_string());
                    let _ = sroot.remove_child(&n);
                }
                4 => {
                    root = root.merge_attr(vec![Necessity::Mandatory(n.to_string()), Necessity::Optional("z".to_string())]);
                    sroot = sroot.merge_attr(vec![Necessity::Optional(n)]);
                }
                5 => {
                    if let Some(c) = root.get_child_mut(&n.to_string()) {
                        c.inner_t_mut().set_multiple();
                        c.inner_t_mut().text = Some("t".to_string());
                    }
                }
                _ => {
                    root.text = Some("t".to_string());
                    sroot.text = None;
                }
            }
            let kids: Vec<&String> = root.children().iter().map(|c| &c.inner_t().name).collect();
            for (i, a) in kids.iter().enumerate() {
                if kids[i + 1..].contains(a) {
                    dup += 1;
                }
            }
        }
        let _ = root.to_serde_struct(&Options::quick_xml_de());
        let _ = sroot.to_serde_struct(&Options::serde_xml_rs());
    }
    (count, dup, 0)
}

fn main() {
    let a: Vec<String> = std::env::args().collect();
    let mode = a.get(1).map(|s| s.as_str()).unwrap_or("bytes");
    let seed: u64 = a.get(2).and_then(|s| s.parse().ok()).unwrap_or(1);
    let count: u64 = a.get(3).and_then(|s| s.parse().ok()).unwrap_or(20);
    std::panic::set_hook(Box::new(|_| {}));
    let (x, y, z) = match mode {
        "bytes" => mode_bytes(seed, count),
        "threads" => mode_threads(seed, count),
        "merge" => mode_merge(seed, count),
        "ops" => mode_ops(seed, count),
        _ => (0, 0, 0),
    };
    println!("MIRIRUN mode={} seed={} count={} a={} b={} c={}", mode, seed, count, x, y, z);
    if (mode == "bytes" && z > 0) || (mode != "bytes" && y > 0) {
        std::process::exit(5);
    }
}
